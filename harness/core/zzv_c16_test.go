//go:build verif

package vgirpc

import (
	"context"
	"fmt"
	"sort"
	"strings"
	"testing"

	"github.com/apache/arrow-go/v18/arrow"

	"github.com/Query-farm/vgi-rpc-go/vgirpc/internal/verif/venum"
)

// C16 — HTTP continuations advance the stream exactly one turn; the handler
// sees the request's own metadata minus the framework's token/cancel keys and
// never sees a token.
//
// One execution = one exchange history on a fresh HttpServer: a turn script
// (per-turn outcome), optionally a cancel after the last driven turn, and one
// "decorated" request in the history whose metadata carries a chosen subset of
// user keys (some colliding with framework keys) and a chosen token variant
// (duplicate stream_state before/after the real one, stray call_state ...).

// vfC16Ob is what user code could observe during one invocation.
type vfC16Ob struct {
	What      string      // exchange | produce | cancel
	Pos       int         // script position of the state that was invoked
	InMeta    [][2]string // CallContext.InputMetadata
	Other     []string    // every other string the CallContext exposes
	BatchMeta [][2]string // custom metadata attached to the input batch object
}

var vfC16Obs []vfC16Ob

func vfC16Pairs(m arrow.Metadata) [][2]string {
	var out [][2]string
	for i, k := range m.Keys() {
		out = append(out, [2]string{k, m.Values()[i]})
	}
	return out
}

func vfC16Record(what string, pos int, input arrow.RecordBatch, cc *CallContext) {
	ob := vfC16Ob{What: what, Pos: pos}
	if cc != nil {
		ob.InMeta = vfC16Pairs(cc.InputMetadata)
		ob.Other = append(ob.Other, cc.RequestID, cc.ServerID, cc.Method)
		for _, k := range vfC16SortedKeys(cc.TransportMetadata) {
			ob.Other = append(ob.Other, cc.TransportMetadata[k])
		}
		for _, k := range vfC16SortedKeys(cc.Cookies) {
			ob.Other = append(ob.Other, cc.Cookies[k])
		}
	}
	if input != nil {
		if bwm, ok := input.(arrow.RecordBatchWithMetadata); ok {
			ob.BatchMeta = vfC16Pairs(bwm.Metadata())
		}
	}
	vfC16Obs = append(vfC16Obs, ob)
}

func vfC16SortedKeys(m map[string]string) []string {
	keys := make([]string, 0, len(m))
	for k := range m {
		keys = append(keys, k)
	}
	sort.Strings(keys)
	return keys
}

// VfC16Exch / VfC16Prod wrap the common script and record what they can see.
type VfC16Exch struct{ S VfScript }

func (p *VfC16Exch) Exchange(ctx context.Context, input arrow.RecordBatch, out *OutputCollector, cc *CallContext) error {
	vfC16Record("exchange", p.S.Pos, input, cc)
	return p.S.run("exchange", input, out, cc)
}
func (p *VfC16Exch) OnCancel(ctx context.Context, cc *CallContext) error {
	vfC16Record("cancel", p.S.Pos, nil, cc)
	return nil
}

type VfC16Prod struct{ S VfScript }

func (p *VfC16Prod) Produce(ctx context.Context, out *OutputCollector, cc *CallContext) error {
	vfC16Record("produce", p.S.Pos, nil, cc)
	return p.S.run("produce", nil, out, cc)
}
func (p *VfC16Prod) OnCancel(ctx context.Context, cc *CallContext) error {
	vfC16Record("cancel", p.S.Pos, nil, cc)
	return nil
}

func init() {
	RegisterStateType(&VfC16Exch{})
	RegisterStateType(&VfC16Prod{})
}

type vfC16Turn struct {
	name     string
	turn     VfTurn
	succeeds bool
}

var vfC16Turns = []vfC16Turn{
	{"emit", VfTurn{Emit: 1, Rows: 1}, true},
	{"emit+meta", VfTurn{Emit: 1, Rows: 2, Meta: []string{"uk", "uv"}}, true},
	{"emit0", VfTurn{Emit: 1, Rows: 0}, true},
	// failing turns: the fault (returned error / panic) placed before and after the emit
	{"error-after-emit", VfTurn{Emit: 1, Rows: 1, Fail: "rpc:ValueError"}, false},
	{"error-before-emit", VfTurn{Logs: []string{"INFO:y"}, Fail: "rpc:ValueError"}, false},
	{"panic-before-emit", VfTurn{Logs: []string{"INFO:x"}, Fail: "panic"}, false},
	{"panic-after-emit", VfTurn{Emit: 1, Rows: 1, Fail: "panic"}, false},
	{"no-emit", VfTurn{}, false},
}

const vfC16Garbage = "Z2FyYmFnZS1ub3QtYS10b2tlbg=="

// token variants of the decorated request
type vfC16Tok struct {
	name string
	dup  string // "", before:garbage, before:old, after:garbage, after:old
	call string // real, real+garbage, garbage+real, garbage, absent
}

func vfC16TokVariants() []vfC16Tok {
	if venum.Thorough() {
		var out []vfC16Tok
		for _, d := range []string{"", "before:garbage", "before:old", "after:garbage", "after:old"} {
			for _, c := range []string{"real", "real+garbage", "garbage+real", "garbage", "absent"} {
				out = append(out, vfC16Tok{name: "dup=" + d + ",call=" + c, dup: d, call: c})
			}
		}
		return out
	}
	return []vfC16Tok{
		{"plain", "", "real"},
		{"dup=before:garbage", "before:garbage", "real"},
		{"dup=before:old", "before:old", "real"},
		{"dup=after:garbage", "after:garbage", "real"},
		{"dup=after:old", "after:old", "real"},
		{"call=real+garbage", "", "real+garbage"},
		{"call=garbage+real", "", "garbage+real"},
		{"call=garbage", "", "garbage"},
		{"call=absent", "", "absent"},
	}
}

var vfC16UserKeys = [][2]string{
	{"k", "v"},
	{MetaRequestID, "rid-1"},
	{MetaLogLevel, "DEBUG"},
	{MetaLocation, "https://example.invalid/obj"},
}

// vfC16Meta builds the metadata pairs (in wire order) of one continuation.
func vfC16Meta(cur, old, call string, userMask int, tok vfC16Tok, cancel bool) [][2]string {
	var m [][2]string
	for i := 0; i < 2; i++ {
		if userMask&(1<<i) != 0 {
			m = append(m, vfC16UserKeys[i])
		}
	}
	dupVal := func(which string) string {
		if strings.HasSuffix(which, ":old") {
			return old
		}
		return vfC16Garbage
	}
	if strings.HasPrefix(tok.dup, "before:") {
		m = append(m, [2]string{MetaStreamState, dupVal(tok.dup)})
	}
	m = append(m, [2]string{MetaStreamState, cur})
	if strings.HasPrefix(tok.dup, "after:") {
		m = append(m, [2]string{MetaStreamState, dupVal(tok.dup)})
	}
	switch tok.call {
	case "real":
		m = append(m, [2]string{MetaCallState, call})
	case "real+garbage":
		m = append(m, [2]string{MetaCallState, call}, [2]string{MetaCallState, vfC16Garbage})
	case "garbage+real":
		m = append(m, [2]string{MetaCallState, vfC16Garbage}, [2]string{MetaCallState, call})
	case "garbage":
		m = append(m, [2]string{MetaCallState, vfC16Garbage})
	case "absent":
	}
	for i := 2; i < len(vfC16UserKeys); i++ {
		if userMask&(1<<i) != 0 {
			m = append(m, vfC16UserKeys[i])
		}
	}
	if cancel {
		m = append(m, [2]string{MetaCancel, "1"})
	}
	return m
}

func vfC16Body(b arrow.RecordBatch, meta [][2]string) []byte {
	kv := make([]string, 0, 2*len(meta))
	for _, p := range meta {
		kv = append(kv, p[0], p[1])
	}
	return vfStreamBytes(b.Schema(), vfWithMeta(b, kv...))
}

func vfC16First(meta [][2]string, key string) (string, bool) {
	for _, p := range meta {
		if p[0] == key {
			return p[1], true
		}
	}
	return "", false
}

func vfC16Strip(meta [][2]string) []string {
	var out []string
	for _, p := range meta {
		if p[0] == MetaStreamState || p[0] == MetaCallState || p[0] == MetaCancel {
			continue
		}
		out = append(out, p[0]+"="+p[1])
	}
	sort.Strings(out)
	return out
}

func vfC16Render(pairs [][2]string) []string {
	out := make([]string, 0, len(pairs))
	for _, p := range pairs {
		out = append(out, p[0]+"="+p[1])
	}
	sort.Strings(out)
	return out
}

// vfC16Leaks returns the places where a minted token is visible to user code.
func vfC16Leaks(ob vfC16Ob, minted map[string]bool) (ctxLeak, batchLeak []string) {
	for _, p := range ob.InMeta {
		if minted[p[1]] {
			ctxLeak = append(ctxLeak, "InputMetadata["+p[0]+"]")
		}
	}
	for _, v := range ob.Other {
		if v != "" && minted[v] {
			ctxLeak = append(ctxLeak, "CallContext field")
		}
	}
	for _, p := range ob.BatchMeta {
		if minted[p[1]] {
			batchLeak = append(batchLeak, "input batch metadata["+p[0]+"]")
		}
	}
	return
}

type vfC16RespInfo struct {
	errs      int
	data      int // batches that are neither log nor error
	batches   int
	cursors   []string // every stream_state value in the response
	dataHasCk bool     // the (single) data batch carries a cursor
	status    int
	broken    string
}

func vfC16Inspect(r vfHSResp) vfC16RespInfo {
	in := vfC16RespInfo{status: r.Status}
	if r.Panic != nil {
		in.broken = fmt.Sprintf("panic escaped ServeHTTP: %v", r.Panic)
		return in
	}
	if r.ParseErr != nil {
		in.broken = r.ParseErr.Error()
		return in
	}
	for _, st := range r.Streams {
		for _, b := range st.Batches {
			in.batches++
			for i, k := range b.Keys {
				if k == MetaStreamState {
					in.cursors = append(in.cursors, b.Vals[i])
				}
			}
			switch b.Kind {
			case "log":
			case "error":
				in.errs++
			default:
				in.data++
				if _, ok := b.M(MetaStreamState); ok {
					in.dataHasCk = true
				}
			}
		}
	}
	return in
}

func TestVerif_C16(t *testing.T) {
	venum.Begin("C16")
	defer venum.Finish(t)
	maxLen := venum.QT(3, 4)
	toks := vfC16TokVariants()
	nUser := 1 << len(vfC16UserKeys)
	// (cache, token variant) pairs. The cache only changes how call_state is
	// resolved, so the quick tier crosses the warm cache with the call_state
	// variants only; the thorough tier takes the full product.
	type vfC16Cfg struct {
		cache int // 0 = disabled, -1 = default size
		tok   vfC16Tok
	}
	var cfgs []vfC16Cfg
	for _, tk := range toks {
		cfgs = append(cfgs, vfC16Cfg{0, tk})
		if venum.Thorough() || tk.call != "real" || tk.dup == "" {
			cfgs = append(cfgs, vfC16Cfg{-1, tk})
		}
	}

	mkServer := func(producer bool, turns []VfTurn) *Server {
		s := NewServer()
		if producer {
			Producer(s, "m", vfOutSchema, func(ctx context.Context, cc *CallContext, p VfXParams) (*StreamResult, error) {
				return &StreamResult{OutputSchema: vfOutSchema, State: &VfC16Prod{S: VfScript{Turns: append([]VfTurn(nil), turns...), Base: p.X}}}, nil
			})
		} else {
			Exchange(s, "m", vfOutSchema, vfInSchema, func(ctx context.Context, cc *CallContext, p VfXParams) (*StreamResult, error) {
				return &StreamResult{OutputSchema: vfOutSchema, State: &VfC16Exch{S: VfScript{Turns: append([]VfTurn(nil), turns...), Base: p.X}}}, nil
			})
		}
		return s
	}

	// ------------------------------------------------------------------
	venum.Explore(t, venum.Cfg{Name: "exchange-histories", Shardable: true}, func(x *venum.X) {
		// first point (fixed arity): (cache, token variant) x user-key subset of the decorated request
		c0 := x.Choose(len(cfgs)*nUser, "cache*token-variant*userkeys")
		cache := cfgs[c0%len(cfgs)].cache
		tok := cfgs[c0%len(cfgs)].tok
		userMask := c0 / len(cfgs)

		var turns []VfTurn
		var defs []vfC16Turn
		for len(turns) < maxLen {
			c := x.Choose(len(vfC16Turns)+1, fmt.Sprintf("turn%d", len(turns)))
			if c == 0 {
				break
			}
			d := vfC16Turns[c-1]
			turns = append(turns, d.turn)
			defs = append(defs, d)
			if !d.succeeds {
				break
			}
		}
		alive := len(defs) == 0 || defs[len(defs)-1].succeeds
		cancelShape := 0 // 0 none, 1 empty-schema batch, 2 input-schema batch with a row
		if alive {
			cancelShape = x.Choose(3, "cancel-after-last-turn")
		}
		nReq := len(turns)
		if cancelShape != 0 {
			nReq++
		}
		if nReq == 0 {
			x.Outcome("nothing to drive")
			return
		}
		decorated := x.Choose(nReq, "decorated-request")

		vfResetEvents()
		vfC16Obs = nil
		farm := vfHSNewFarm(1, func() *Server { return mkServer(false, turns) }, func(h *HttpServer) {
			if cache >= 0 {
				h.SetCallStateCacheEntries(cache)
			}
			_ = h.SetCompressionLevel(0)
		})
		hist := ""
		for _, d := range defs {
			hist += d.name + ","
		}
		fail := func(sig, format string, args ...any) {
			x.Failf(sig, "script=[%s] cancel=%d decorated=#%d userkeys=%04b token=%s cache=%d: %s", hist, cancelShape, decorated, userMask, tok.name, cache, fmt.Sprintf(format, args...))
		}

		r0 := farm.Post("/m/init", vfXReq("m", 1000))
		i0 := vfC16Inspect(r0)
		if i0.broken != "" || len(i0.cursors) != 1 || i0.errs != 0 {
			fail("C16:init:no-cursor", "init response unusable: %+v", i0)
			return
		}
		_, call := vfTokens(r0.Streams)
		cur := i0.cursors[0]
		old := cur
		minted := map[string]bool{cur: true, call: true}
		posOf := map[string]int{cur: 0}
		out := []string{}

		for req := 0; req < nReq; req++ {
			isCancel := cancelShape != 0 && req == nReq-1
			um, tv := 0, vfC16Tok{name: "plain", call: "real"}
			if req == decorated {
				um, tv = userMask, tok
			}
			meta := vfC16Meta(cur, old, call, um, tv, isCancel)
			var in arrow.RecordBatch
			if isCancel && cancelShape == 1 {
				in = vfEmpty(vfEmptySchema)
			} else {
				in = vfI64Batch("x", int64(7+req))
			}
			obsBefore := len(vfC16Obs)
			r := farm.Post("/m/exchange", vfC16Body(in, meta))
			in.Release()
			info := vfC16Inspect(r)
			obs := vfC16Obs[obsBefore:]
			cls := "exchange"
			if isCancel {
				cls = "cancel"
			}
			where := fmt.Sprintf("request #%d (%s)", req, cls)
			if info.broken != "" {
				fail("C16:"+cls+":response-broken", "%s: %s", where, info.broken)
				return
			}
			for _, c := range info.cursors {
				minted[c] = true
			}

			// --- what the statement lets us expect
			firstState, _ := vfC16First(meta, MetaStreamState)
			firstCall, hasCall := vfC16First(meta, MetaCallState)
			effPos, known := posOf[firstState]
			expect := "" // accepted | failed | refused | "" (either)
			switch {
			case !known:
				expect = "refused"
			case !hasCall || firstCall != call:
				if cache == 0 {
					expect = "refused"
				} // warm cache: the call token is not consulted; either verdict is accepted
			default:
				expect = "ran"
			}

			// --- never sees a token (checked for every invocation, whatever the verdict)
			for _, ob := range obs {
				ctxLeak, batchLeak := vfC16Leaks(ob, minted)
				if len(ctxLeak) > 0 {
					fail("C16:"+ob.What+":token-visible:call-context", "%s: minted token visible in %v", where, ctxLeak)
				}
				if len(batchLeak) > 0 {
					fail("C16:"+ob.What+":token-visible:input-batch-metadata", "%s: minted token visible in %v (the batch handed to the handler still carries the request's token keys)", where, batchLeak)
				}
				if ob.What == "exchange" {
					want := vfC16Strip(meta)
					got := vfC16Render(ob.InMeta)
					if !vfHSEq(want, got) {
						fail("C16:exchange:input-metadata-differs", "%s: handler saw InputMetadata %v, request carried (minus token/cancel keys) %v", where, got, want)
					}
				}
			}

			nExch, nCancel := 0, 0
			for _, ob := range obs {
				switch ob.What {
				case "exchange":
					nExch++
				case "cancel":
					nCancel++
				}
			}

			if isCancel {
				verdict := "cancelled"
				if info.errs > 0 {
					verdict = "refused"
				}
				out = append(out, fmt.Sprintf("cancel:%s:oncancel=%d:exch=%d:batches=%d", verdict, nCancel, nExch, info.batches))
				if expect == "refused" && verdict != "refused" {
					fail("C16:cancel:bad-token-not-refused", "%s: continuation with an unusable token was not refused: %+v", where, info)
				}
				if verdict == "refused" {
					if expect == "ran" {
						fail("C16:cancel:refused", "%s: well-formed cancel refused: %+v", where, info)
					}
					if len(info.cursors) > 0 {
						fail("C16:cancel:refused-with-cursor", "%s: %+v", where, info)
					}
					break
				}
				if nCancel != 1 {
					fail("C16:cancel:oncancel-count", "%s: OnCancel ran %d times, want exactly once", where, nCancel)
				}
				if nExch != 0 {
					fail("C16:cancel:exchange-ran", "%s: Exchange ran %d times on a cancel continuation", where, nExch)
				}
				if info.batches != 0 || len(r.Streams) != 1 {
					fail("C16:cancel:stream-not-empty", "%s: want one empty stream, got %d streams / %d batches", where, len(r.Streams), info.batches)
				}
				if len(info.cursors) > 0 {
					fail("C16:cancel:cursor-returned", "%s: cancel response carries a cursor", where)
				}
				break
			}

			// exchange turn
			verdict := "accepted"
			if info.errs > 0 || info.status >= 400 {
				verdict = "failed"
			}
			out = append(out, fmt.Sprintf("%s:ran=%d:data=%d:cursors=%d:status=%d", verdict, nExch, info.data, len(info.cursors), info.status))
			wantAccepted := false
			if expect == "ran" {
				t := vfC16Turn{name: "past-script", succeeds: true} // past the script an exchange emits
				if effPos < len(defs) {
					t = defs[effPos]
				}
				wantAccepted = t.succeeds
				if nExch != 1 {
					fail("C16:exchange:handler-run-count", "%s: Exchange ran %d times, want exactly once", where, nExch)
				} else if obs[0].Pos != effPos {
					fail("C16:exchange:not-one-turn", "%s: handler ran at script position %d, the presented cursor stands at %d", where, obs[0].Pos, effPos)
				}
				if wantAccepted && verdict != "accepted" {
					fail("C16:exchange:good-turn-failed", "%s: turn %d should succeed but the response is an error: %+v", where, effPos, info)
				}
				if !wantAccepted && verdict == "accepted" {
					fail("C16:exchange:failed-turn-accepted:"+t.name, "%s: turn %d fails in the handler but the response carries no error: %+v", where, effPos, info)
				}
			}
			if expect == "refused" {
				if verdict == "accepted" {
					fail("C16:exchange:bad-token-not-refused", "%s: continuation with an unusable token was accepted: %+v", where, info)
				}
				if nExch != 0 {
					fail("C16:exchange:handler-ran-on-refusal", "%s: Exchange ran %d times although the tokens are unusable", where, nExch)
				}
			}
			if verdict == "failed" {
				if info.errs < 1 {
					fail("C16:exchange:failed-without-error", "%s: status %d but no EXCEPTION batch", where, info.status)
				}
				if len(info.cursors) > 0 {
					fail("C16:exchange:failed-turn-with-cursor", "%s: failed turn returned a cursor: %+v", where, info)
				}
				// the stream has ended; the client stops
				req = nReq
				break
			}
			// accepted
			if info.data != 1 {
				fail("C16:exchange:data-batch-count", "%s: accepted turn returned %d data batches, want exactly 1", where, info.data)
			}
			if !info.dataHasCk || len(info.cursors) != 1 {
				fail("C16:exchange:accepted-without-cursor", "%s: accepted turn: data batch carries cursor=%v, %d cursor entries in response", where, info.dataHasCk, len(info.cursors))
				req = nReq
				break
			}
			nc := info.cursors[0]
			if _, seen := posOf[nc]; seen || nc == vfC16Garbage {
				fail("C16:exchange:cursor-not-fresh", "%s: returned cursor equals an earlier one", where)
			}
			if known {
				posOf[nc] = effPos + 1
			}
			cur = nc
		}
		x.Outcome("%s|%s|obs=%d", hist, strings.Join(out, ";"), len(vfC16Obs))
	})

	// ------------------------------------------------------------------
	// Producer continuations: the same metadata clause on the tick metadata the
	// first Produce of a continuation turn sees (batch limit 1 => one Produce per turn).
	venum.Explore(t, venum.Cfg{Name: "producer-continuation-metadata", Shardable: true}, func(x *venum.X) {
		c0 := x.Choose(len(cfgs)*nUser, "cache*token-variant*userkeys")
		cache := cfgs[c0%len(cfgs)].cache
		tok := cfgs[c0%len(cfgs)].tok
		userMask := c0 / len(cfgs)
		decorated := x.Choose(2, "decorated-continuation")
		turns := []VfTurn{{Emit: 1, Rows: 1}, {Emit: 1, Rows: 1}, {Emit: 1, Rows: 1}}
		vfResetEvents()
		vfC16Obs = nil
		farm := vfHSNewFarm(1, func() *Server { return mkServer(true, turns) }, func(h *HttpServer) {
			h.SetProducerBatchLimit(1)
			if cache >= 0 {
				h.SetCallStateCacheEntries(cache)
			}
			_ = h.SetCompressionLevel(0)
		})
		fail := func(sig, format string, args ...any) {
			x.Failf(sig, "decorated=#%d userkeys=%04b token=%s cache=%d: %s", decorated, userMask, tok.name, cache, fmt.Sprintf(format, args...))
		}
		r0 := farm.Post("/m/init", vfXReq("m", 1000))
		i0 := vfC16Inspect(r0)
		if i0.broken != "" || len(i0.cursors) != 1 {
			fail("C16:producer-cont:init-no-cursor", "init response unusable: %+v", i0)
			return
		}
		_, call := vfTokens(r0.Streams)
		cur, old := i0.cursors[0], i0.cursors[0]
		minted := map[string]bool{cur: true, call: true}
		var out []string
		for req := 0; req < 2; req++ {
			um, tv := 0, vfC16Tok{name: "plain", call: "real"}
			if req == decorated {
				um, tv = userMask, tok
			}
			meta := vfC16Meta(cur, old, call, um, tv, false)
			obsBefore := len(vfC16Obs)
			r := farm.Post("/m/exchange", vfC16Body(vfEmpty(vfEmptySchema), meta))
			info := vfC16Inspect(r)
			if info.broken != "" {
				fail("C16:producer-cont:response-broken", "continuation #%d: %s", req, info.broken)
				return
			}
			for _, c := range info.cursors {
				minted[c] = true
			}
			obs := vfC16Obs[obsBefore:]
			for i, ob := range obs {
				ctxLeak, _ := vfC16Leaks(ob, minted)
				if len(ctxLeak) > 0 {
					fail("C16:producer-cont:token-visible:call-context", "continuation #%d: minted token visible in %v", req, ctxLeak)
				}
				if i == 0 && ob.What == "produce" {
					want, got := vfC16Strip(meta), vfC16Render(ob.InMeta)
					if !vfHSEq(want, got) {
						fail("C16:producer-cont:input-metadata-differs", "continuation #%d: first Produce saw %v, request carried (minus token/cancel keys) %v", req, got, want)
					}
				}
			}
			out = append(out, fmt.Sprintf("errs=%d:data=%d:cursors=%d:produce=%d", info.errs, info.data, len(info.cursors), len(obs)))
			if info.errs > 0 || len(info.cursors) == 0 {
				break
			}
			cur = info.cursors[len(info.cursors)-1]
		}
		x.Outcome("%s", strings.Join(out, ";"))
	})

	// ------------------------------------------------------------------
	// Cancel at every position for every registration kind: static exchange,
	// dynamic exchange without / with StreamResult.InputSchema, static and
	// dynamic producer (batch limit 1, so every turn ends with a cursor).
	type ckind struct {
		name     string
		producer bool
		dynamic  bool
		dynInput bool
	}
	ckinds := []ckind{
		{name: "exchange"},
		{name: "dyn-exchange", dynamic: true},
		{name: "dyn-exchange+inputschema", dynamic: true, dynInput: true},
		{name: "producer", producer: true},
		{name: "dyn-producer", producer: true, dynamic: true},
	}
	maxTurns := venum.QT(2, 3)
	venum.Explore(t, venum.Cfg{Name: "cancel-kinds", Shardable: true}, func(x *venum.X) {
		c0 := x.Choose(len(ckinds)*2*2, "kind*cache*header")
		k := ckinds[c0%len(ckinds)]
		cache := []int{0, -1}[(c0/len(ckinds))%2]
		header := c0/(2*len(ckinds)) == 1
		turnsBefore := x.Choose(maxTurns+1, "accepted-turns-before-cancel")
		shape := 1 + x.Choose(2, "cancel-batch-shape") // 1 empty-schema batch, 2 input-schema batch with a row
		userMask := []int{0, nUser - 1}[x.Choose(2, "user-keys")]

		vfResetEvents()
		vfC16Obs = nil
		turns := make([]VfTurn, 8)
		for i := range turns {
			turns[i] = VfTurn{Emit: 1, Rows: 1}
		}
		mk := func() *Server {
			s := NewServer()
			handler := func(ctx context.Context, cc *CallContext, p VfXParams) (*StreamResult, error) {
				r := &StreamResult{OutputSchema: vfOutSchema}
				sc := VfScript{Turns: append([]VfTurn(nil), turns...), Base: p.X}
				if k.producer {
					r.State = &VfC16Prod{S: sc}
				} else {
					r.State = &VfC16Exch{S: sc}
				}
				if k.dynInput {
					r.InputSchema = vfInSchema
				}
				if header {
					r.Header = VfHeader{Title: "h"}
				}
				return r, nil
			}
			hs := VfHeader{}.ArrowSchema()
			switch {
			case k.dynamic:
				DynamicStreamWithHeader(s, "m", hs, handler)
			case k.producer && header:
				ProducerWithHeader(s, "m", vfOutSchema, hs, handler)
			case k.producer:
				Producer(s, "m", vfOutSchema, handler)
			case header:
				ExchangeWithHeader(s, "m", vfOutSchema, vfInSchema, hs, handler)
			default:
				Exchange(s, "m", vfOutSchema, vfInSchema, handler)
			}
			return s
		}
		farm := vfHSNewFarm(1, mk, func(h *HttpServer) {
			h.SetProducerBatchLimit(1)
			if cache >= 0 {
				h.SetCallStateCacheEntries(cache)
			}
			_ = h.SetCompressionLevel(0)
		})
		cls := "C16:cancel-kinds:" + k.name
		fail := func(sig, format string, args ...any) {
			x.Failf(sig, "kind=%s header=%v cache=%d turns-before=%d shape=%d userkeys=%04b: %s", k.name, header, cache, turnsBefore, shape, userMask, fmt.Sprintf(format, args...))
		}
		r0 := farm.Post("/m/init", vfXReq("m", 1000))
		i0 := vfC16Inspect(r0)
		if i0.broken != "" || len(i0.cursors) != 1 || i0.errs != 0 {
			fail(cls+":init-no-cursor", "init response unusable: %+v", i0)
			return
		}
		_, call := vfTokens(r0.Streams)
		cur := i0.cursors[0]
		minted := map[string]bool{cur: true, call: true}
		plain := vfC16Tok{name: "plain", call: "real"}
		for i := 0; i < turnsBefore; i++ {
			var in arrow.RecordBatch
			if k.producer {
				in = vfEmpty(vfEmptySchema)
			} else {
				in = vfI64Batch("x", int64(7+i))
			}
			r := farm.Post("/m/exchange", vfC16Body(in, vfC16Meta(cur, cur, call, 0, plain, false)))
			in.Release()
			info := vfC16Inspect(r)
			if info.broken != "" || info.errs != 0 || len(info.cursors) != 1 {
				fail(cls+":turn-before-cancel-failed", "turn %d: %+v", i, info)
				return
			}
			cur = info.cursors[0]
			minted[cur] = true
		}
		var in arrow.RecordBatch
		if shape == 1 {
			in = vfEmpty(vfEmptySchema)
		} else {
			in = vfI64Batch("x", 99)
		}
		meta := vfC16Meta(cur, cur, call, userMask, plain, true)
		obsBefore := len(vfC16Obs)
		r := farm.Post("/m/exchange", vfC16Body(in, meta))
		in.Release()
		info := vfC16Inspect(r)
		if info.broken != "" {
			fail(cls+":response-broken", "%s", info.broken)
			return
		}
		nCancel, nOther := 0, 0
		for _, ob := range vfC16Obs[obsBefore:] {
			if ob.What == "cancel" {
				nCancel++
			} else {
				nOther++
			}
			ctxLeak, batchLeak := vfC16Leaks(ob, minted)
			if len(ctxLeak)+len(batchLeak) > 0 {
				fail(cls+":token-visible", "minted token visible in %v %v", ctxLeak, batchLeak)
			}
		}
		if info.errs > 0 || info.status >= 400 {
			fail(cls+":refused", "well-formed cancel continuation answered with an error (status %d, %d EXCEPTION batches), OnCancel ran %d times", info.status, info.errs, nCancel)
		} else {
			if info.batches != 0 || len(r.Streams) != 1 {
				fail(cls+":stream-not-empty", "want one empty stream, got %d streams / %d batches", len(r.Streams), info.batches)
			}
		}
		if nCancel != 1 {
			fail(cls+":oncancel-count", "OnCancel ran %d times, want exactly once", nCancel)
		}
		if nOther != 0 {
			fail(cls+":state-method-ran", "Produce/Exchange ran %d times on a cancel continuation", nOther)
		}
		if len(info.cursors) > 0 {
			fail(cls+":cursor-returned", "cancel response carries a cursor")
		}
		x.Outcome("%s|turns=%d|status=%d|errs=%d|batches=%d|oncancel=%d|other=%d", k.name, turnsBefore, info.status, info.errs, info.batches, nCancel, nOther)
	})
}
