//go:build verif

package vgirpc

import (
	"context"
	"fmt"
	"strings"
	"testing"

	"github.com/apache/arrow-go/v18/arrow"
	"github.com/apache/arrow-go/v18/arrow/array"

	"github.com/Query-farm/vgi-rpc-go/vgirpc/internal/verif/venum"
)

// C11 — a stream behaves the same over HTTP as over a pipe (differential).
//
// One execution = one scripted stream method (kind, header, turn script, input
// column type) run twice: once through the pipe serve loop on in-memory buffers
// and once through 1..3 HttpServer instances (shared key, round-robin) by the
// harness HTTP stream client, under one HTTP configuration (producer batch
// limit, call-state cache size, response compression). After normalisation the
// two client-visible views must agree on header, data batches, log messages and
// terminating error.

type vfC11Kind struct {
	name     string
	producer bool
	dynamic  bool
	dynInput bool // dynamic exchange that declares StreamResult.InputSchema
	both     bool // the state type implements ProducerState AND ExchangeState
}

// vfC11KindList: the state of the "*-both" kinds implements both stream
// interfaces. A dynamic method then runs as a producer (ProducerState is
// tested first at init and on the pipe). Static registrations of such a state
// run in the registered mode and are not enumerated (they would add ~45% to the
// thorough space for a mode decision that does not look at the state type).
func vfC11KindList() []vfC11Kind {
	ks := []vfC11Kind{
		{name: "producer", producer: true},
		{name: "exchange"},
		{name: "dyn-producer", producer: true, dynamic: true},
		{name: "dyn-exchange", dynamic: true},
		{name: "dyn-exchange+inputschema", dynamic: true, dynInput: true},
		{name: "dyn-both-interfaces", producer: true, dynamic: true, both: true},
	}
	return ks
}

// VfC11Both is a scripted state implementing ProducerState, ExchangeState and
// StreamCanceller at once.
type VfC11Both struct{ S VfScript }

func (p *VfC11Both) Produce(ctx context.Context, out *OutputCollector, cc *CallContext) error {
	return p.S.run("produce", nil, out, cc)
}
func (p *VfC11Both) Exchange(ctx context.Context, in arrow.RecordBatch, out *OutputCollector, cc *CallContext) error {
	return p.S.run("exchange", in, out, cc)
}
func (p *VfC11Both) OnCancel(ctx context.Context, cc *CallContext) error {
	vfEvents = append(vfEvents, VfEvent{What: "cancel", Method: cc.Method, Pos: p.S.Pos})
	return nil
}

func init() { RegisterStateType(&VfC11Both{}) }

type vfC11TurnDef struct {
	name     string
	turn     VfTurn
	terminal bool // ends the stream on a producer
	termExch bool // ends the stream on an exchange
}

func vfC11Turns() []vfC11TurnDef {
	q := []vfC11TurnDef{
		{name: "emit", turn: VfTurn{Emit: 1, Rows: 1}},
		// logs on both sides of the emit inside one turn (position of a log relative to the data batch)
		{name: "emit+logs-around", turn: VfTurn{Emit: 1, Rows: 1, Logs: []string{"INFO:l1"}, LateLog: "DEBUG:l2"}},
		{name: "emit+meta", turn: VfTurn{Emit: 1, Rows: 2, Meta: []string{"uk", "uv"}}},
		{name: "emit0", turn: VfTurn{Emit: 1, Rows: 0}},
		{name: "emit-twice", turn: VfTurn{Emit: 2, Rows: 1}, terminal: true, termExch: true},
		{name: "no-emit", turn: VfTurn{Logs: []string{"WARN:quiet"}}, terminal: true, termExch: true},
		{name: "rpc-error", turn: VfTurn{Logs: []string{"INFO:before"}, Fail: "rpc:ValueError"}, terminal: true, termExch: true},
		{name: "panic", turn: VfTurn{Emit: 1, Rows: 1, Fail: "panic"}, terminal: true, termExch: true},
		{name: "finish", turn: VfTurn{Finish: true}, terminal: true, termExch: true},
		{name: "log-then-finish", turn: VfTurn{Logs: []string{"DEBUG:bye"}, Finish: true}, terminal: true, termExch: true},
	}
	if venum.Thorough() {
		q = append(q,
			vfC11TurnDef{name: "emit+log-before", turn: VfTurn{Emit: 1, Rows: 3, Logs: []string{"TRACE:a"}}},
			vfC11TurnDef{name: "plain-error", turn: VfTurn{Fail: "plain"}, terminal: true, termExch: true},
			vfC11TurnDef{name: "emit+finish", turn: VfTurn{Emit: 1, Rows: 1, Finish: true}, terminal: true, termExch: true},
		)
	}
	return q
}

type vfC11Input struct {
	name string
	mk   func(turn int) arrow.RecordBatch
}

func vfC11Inputs() []vfC11Input {
	ins := []vfC11Input{
		{name: "equal-int64", mk: func(i int) arrow.RecordBatch { return vfI64Batch("x", int64(5+i)) }},
		{name: "castable-int32", mk: func(i int) arrow.RecordBatch {
			return vfBatchJSON(arrow.NewSchema([]arrow.Field{{Name: "x", Type: arrow.PrimitiveTypes.Int32}}, nil), fmt.Sprintf(`[{"x":%d}]`, 5+i))
		}},
		{name: "uncastable-utf8", mk: func(i int) arrow.RecordBatch {
			return vfBatchJSON(arrow.NewSchema([]arrow.Field{{Name: "x", Type: arrow.BinaryTypes.String}}, nil), `[{"x":"abc"}]`)
		}},
	}
	if venum.Thorough() {
		ins = append(ins,
			vfC11Input{name: "numeric-utf8", mk: func(i int) arrow.RecordBatch {
				return vfBatchJSON(arrow.NewSchema([]arrow.Field{{Name: "x", Type: arrow.BinaryTypes.String}}, nil), fmt.Sprintf(`[{"x":"%d"}]`, 5+i))
			}},
			vfC11Input{name: "fractional-float64", mk: func(i int) arrow.RecordBatch {
				return vfBatchJSON(arrow.NewSchema([]arrow.Field{{Name: "x", Type: arrow.PrimitiveTypes.Float64}}, nil), `[{"x":2.5}]`)
			}},
			vfC11Input{name: "other-name", mk: func(i int) arrow.RecordBatch { return vfI64Batch("y", int64(5+i)) }},
		)
	}
	return ins
}

// vfC11Server registers the scripted method "m" of the given kind.
func vfC11Server(k vfC11Kind, header, initLog bool, turns []VfTurn) *Server {
	s := NewServer()
	mkState := func(base int64) interface{} {
		sc := VfScript{Name: k.name, Turns: append([]VfTurn(nil), turns...), Base: base}
		if k.both {
			return &VfC11Both{S: sc}
		}
		if k.producer {
			return &VfProducer{S: sc}
		}
		return &VfExchanger{S: sc}
	}
	handler := func(ctx context.Context, cc *CallContext, p VfXParams) (*StreamResult, error) {
		if initLog {
			// two messages, so a transport that repeats or reorders them shows
			cc.ClientLog(LogInfo, "init-A")
			cc.ClientLog(LogDebug, "init-B")
		}
		r := &StreamResult{OutputSchema: vfOutSchema, State: mkState(p.X)}
		if k.dynInput {
			r.InputSchema = vfInSchema
		}
		if header {
			r.Header = VfHeader{Title: fmt.Sprintf("hdr-%d", p.X)}
		}
		return r, nil
	}
	hs := VfHeader{}.ArrowSchema()
	switch {
	case k.dynamic:
		DynamicStreamWithHeader(s, "m", hs, handler)
	case k.producer && header:
		ProducerWithHeader(s, "m", vfOutSchema, hs, handler)
	case k.producer:
		Producer(s, "m", vfOutSchema, handler)
	case header:
		ExchangeWithHeader(s, "m", vfOutSchema, vfInSchema, hs, handler)
	default:
		Exchange(s, "m", vfOutSchema, vfInSchema, handler)
	}
	return s
}

func vfC11Diff(a, b []string) string {
	n := len(a)
	if len(b) < n {
		n = len(b)
	}
	for i := 0; i < n; i++ {
		if a[i] != b[i] {
			return fmt.Sprintf("first difference at #%d: pipe %q vs http %q", i, a[i], b[i])
		}
	}
	return fmt.Sprintf("pipe has %d, http has %d", len(a), len(b))
}

func TestVerif_C11(t *testing.T) {
	venum.Begin("C11")
	defer venum.Finish(t)

	turnDefs := vfC11Turns()
	vfC11Kinds := vfC11KindList()
	inputs := vfC11Inputs()
	// script length bound: 3 (quick); thorough: 4 for producers (so that batch
	// limit 3 is crossed), 3 for exchange kinds
	maxLenProducer := venum.QT(3, 4)
	maxLenExchange := 3
	limits := []int{0, 1, 2, 3}
	caches := []int{0, -1}                             // -1 = leave the default
	instances := venum.QT([]int{1, 3}, []int{1, 2, 3}) // quick: 2 instances are covered by the call-sequences space

	// First choice point: one fixed-arity index over kind x header x instances
	// x cache x compression, so shards get an even mix.
	type combo struct {
		kind     int
		header   bool
		initLog  bool
		inst     int
		cache    int
		compress bool
	}
	type hl struct{ header, initLog bool }
	// header x "init handler logs": all four combinations in both tiers. In the
	// quick tier the init-log combinations run scripts of length <= 1 (the init
	// logs are written before the first turn; the long scripts are crossed with
	// them in the thorough tier).
	hls := []hl{{false, false}, {true, false}, {true, true}, {false, true}}
	var combos []combo
	for _, comp := range []bool{false, true} {
		for _, c := range caches {
			for _, n := range instances {
				for _, h := range hls {
					for ki := range vfC11Kinds {
						combos = append(combos, combo{ki, h.header, h.initLog, n, c, comp})
					}
				}
			}
		}
	}

	venum.Explore(t, venum.Cfg{Name: "pipe-vs-http", Shardable: true}, func(x *venum.X) {
		cb := combos[x.Choose(len(combos), "kind*header*initlog*instances*cache*compression")]
		k := vfC11Kinds[cb.kind]

		// turn script: non-terminal turns until a terminal one or the length bound
		var turns []VfTurn
		var names []string
		ended := false
		maxLen := maxLenExchange
		if k.producer {
			maxLen = maxLenProducer
		}
		if cb.initLog && !venum.Thorough() {
			maxLen = 1
		}
		for len(turns) < maxLen {
			c := x.Choose(len(turnDefs)+1, fmt.Sprintf("turn%d", len(turns)))
			if c == 0 {
				break // script ends here (producer: finishes past the script; exchange: client stops)
			}
			d := turnDefs[c-1]
			turns = append(turns, d.turn)
			names = append(names, d.name)
			if (k.producer && d.terminal) || (!k.producer && d.termExch) {
				ended = true
				break
			}
		}
		_ = ended
		initLog := cb.initLog
		limit := 0
		inKind := 0
		if k.producer {
			limit = limits[x.Choose(len(limits), "producer-batch-limit")]
		} else {
			inKind = x.Choose(len(inputs), "input-type")
		}

		vfResetEvents()
		const base = 1000
		initBody := vfXReq("m", base)

		// ---- pipe run
		var pipeIn []byte
		var inBatches []arrow.RecordBatch
		if k.producer {
			pipeIn = append(append([]byte{}, initBody...), vfTicks(len(turns)+2)...)
		} else {
			n := len(turns)
			if n == 0 {
				n = 1 // past the script an exchange emits; drive one turn
			}
			for i := 0; i < n; i++ {
				inBatches = append(inBatches, inputs[inKind].mk(i))
			}
			pipeIn = append(append([]byte{}, initBody...), vfStreamBytes(inBatches[0].Schema(), inBatches...)...)
		}
		pipe := vfHSPipeView(vfC11Server(k, cb.header, initLog, turns), pipeIn, cb.header)
		pipeEvents := vfEventStrings()

		// ---- HTTP run
		vfResetEvents()
		farm := vfHSNewFarm(cb.inst, func() *Server { return vfC11Server(k, cb.header, initLog, turns) }, func(h *HttpServer) {
			h.SetProducerBatchLimit(limit)
			if cb.cache >= 0 {
				h.SetCallStateCacheEntries(cb.cache)
			}
			if !cb.compress {
				_ = h.SetCompressionLevel(0)
			}
		})
		farm.Compress = cb.compress
		var web vfHSView
		var resps []vfHSResp
		if k.producer {
			web, resps = vfHSProducerView(farm, "m", initBody, cb.header)
		} else {
			web, resps = vfHSExchangeView(farm, "m", initBody, cb.header, inBatches)
		}
		httpEvents := vfEventStrings()
		for _, b := range inBatches {
			b.Release()
		}

		// ---- oracle
		script := strings.Join(names, ",")
		if script == "" {
			script = "(empty)"
		}
		// signature class: kind, input column type and the facet that differs
		// (header / data / logs / error); script and configuration go into the detail.
		last := "(empty)"
		if len(names) > 0 {
			last = names[len(names)-1]
		}
		cls := "C11:" + k.name
		if !k.producer {
			cls += ":" + inputs[inKind].name
		}
		detail := func() string {
			return fmt.Sprintf("script=[%s] header=%v initlog=%v limit=%d cache=%d compress=%v instances=%d\n pipe: %s\n http: %s\n pipe-events: %s\n http-events: %s",
				script, cb.header, initLog, limit, cb.cache, cb.compress, cb.inst, pipe.String(), web.String(), vfJoin(pipeEvents), vfJoin(httpEvents))
		}
		if len(pipe.Problems) > 0 {
			x.Failf(cls+":pipe-run-broken", "last=%s %s", last, detail())
		}
		if len(web.Problems) > 0 {
			x.Failf(cls+":http-run-broken", "last=%s %s", last, detail())
		}
		if cb.compress {
			sawZstd := false
			for _, r := range resps {
				if r.Enc == "zstd" {
					sawZstd = true
				}
			}
			if !sawZstd && len(web.Problems) == 0 {
				x.Failf("C11:harness:compression-not-exercised", "no response was zstd-encoded although the client asked for it\n%s", detail())
			}
		}
		if !vfHSEq(pipe.Of("header"), web.Of("header")) {
			x.Failf(cls+":header-differs", "%s\n%s", vfC11Diff(pipe.Of("header"), web.Of("header")), detail())
		}
		if !vfHSEq(pipe.Of("data"), web.Of("data")) {
			x.Failf(cls+":data-differs", "last=%s %s\n%s", last, vfC11Diff(pipe.Of("data"), web.Of("data")), detail())
		}
		if !vfHSEq(pipe.Of("log"), web.Of("log")) {
			x.Failf(cls+":logs-differ", "last=%s %s\n%s", last, vfC11Diff(pipe.Of("log"), web.Of("log")), detail())
		}
		if !vfHSEq(pipe.Of("error"), web.Of("error")) {
			x.Failf(cls+":error-differs", "last=%s %s\n%s", last, vfC11Diff(pipe.Of("error"), web.Of("error")), detail())
		}
		x.Note("script=[%s] pipe: %s", script, pipe.String())
		x.Note("http: %s", web.String())
		// outcome = what the HTTP client actually saw (plus request count)
		x.Outcome("%s|h=%v|%s|req=%d", k.name, cb.header, web.String(), farm.Requests)
	})

	// ------------------------------------------------------------------
	// Call sequences: several calls of the same method, one after the other, on
	// the SAME pipe server and the SAME HttpServer instances (round-robin goes
	// on across calls), so anything an instance keeps between calls is exercised.
	// Each call picks its own turn script and — for dynamic methods, whose output
	// schema is chosen per call by the handler — its own output schema.
	seqScripts := []struct {
		name  string
		turns []VfTurn
	}{
		{"emit,emit", []VfTurn{{Emit: 1, Rows: 1}, {Emit: 1, Rows: 2}}},
		{"emit+meta,emit+log", []VfTurn{{Emit: 1, Rows: 1, Meta: []string{"uk", "uv"}}, {Emit: 1, Rows: 1, Logs: []string{"INFO:l"}, LateLog: "INFO:after"}}},
		{"emit,rpc-error", []VfTurn{{Emit: 1, Rows: 1}, {Fail: "rpc:ValueError"}}},
	}
	seqSchemas := []*arrow.Schema{vfOutSchema, vfI64Schema("w"), arrow.NewSchema([]arrow.Field{{Name: "v", Type: arrow.PrimitiveTypes.Int64, Nullable: true}}, nil)}
	seqServer := func(k vfC11Kind) *Server {
		s := NewServer()
		handler := func(ctx context.Context, cc *CallContext, p VfXParams) (*StreamResult, error) {
			sc := VfScript{Name: k.name, Turns: append([]VfTurn(nil), seqScripts[(p.X/10)%10].turns...), Base: p.X}
			out := vfOutSchema
			if k.dynamic {
				out = seqSchemas[p.X%10]
			}
			r := &StreamResult{OutputSchema: out}
			switch {
			case k.both:
				r.State = &VfC11Both{S: sc}
			case k.producer:
				r.State = &VfProducer{S: sc}
			default:
				r.State = &VfExchanger{S: sc}
			}
			if k.dynInput {
				r.InputSchema = vfInSchema
			}
			return r, nil
		}
		switch {
		case k.dynamic:
			DynamicStreamWithHeader(s, "m", VfHeader{}.ArrowSchema(), handler)
		case k.producer:
			Producer(s, "m", vfOutSchema, handler)
		default:
			Exchange(s, "m", vfOutSchema, vfInSchema, handler)
		}
		return s
	}
	nCalls := venum.QT(2, 3)
	seqInst := venum.QT([]int{1, 2}, []int{1, 2, 3})
	venum.Explore(t, venum.Cfg{Name: "call-sequences", Shardable: true}, func(x *venum.X) {
		c0 := x.Choose(len(vfC11Kinds)*len(seqInst)*2, "kind*instances*cache")
		k := vfC11Kinds[c0%len(vfC11Kinds)]
		inst := seqInst[(c0/len(vfC11Kinds))%len(seqInst)]
		cache := []int{0, -1}[c0/(len(vfC11Kinds)*len(seqInst))]
		limit := 0
		if k.producer {
			limit = x.Choose(2, "producer-batch-limit") // 0 or 1 (1 forces continuations)
		}
		nSchemas := 1
		if k.dynamic {
			nSchemas = len(seqSchemas)
		}
		type call struct{ script, schema int }
		var calls []call
		for i := 0; i < nCalls; i++ {
			calls = append(calls, call{x.Choose(len(seqScripts), fmt.Sprintf("call%d-script", i)), x.Choose(nSchemas, fmt.Sprintf("call%d-output-schema", i))})
		}
		vfResetEvents()
		pipeSrv := seqServer(k)
		farm := vfHSNewFarm(inst, func() *Server { return seqServer(k) }, func(h *HttpServer) {
			h.SetProducerBatchLimit(limit)
			if cache >= 0 {
				h.SetCallStateCacheEntries(cache)
			}
			_ = h.SetCompressionLevel(0)
		})
		var outcome []string
		for i, c := range calls {
			xparam := int64(1000*(i+1) + 10*c.script + c.schema)
			initBody := vfXReq("m", xparam)
			var pipeIn []byte
			var inBatches []arrow.RecordBatch
			if k.producer {
				pipeIn = append(append([]byte{}, initBody...), vfTicks(4)...)
			} else {
				for j := 0; j < 2; j++ {
					inBatches = append(inBatches, vfI64Batch("x", int64(5+j)))
				}
				pipeIn = append(append([]byte{}, initBody...), vfStreamBytes(vfInSchema, inBatches...)...)
			}
			pipe := vfHSPipeView(pipeSrv, pipeIn, false)
			var web vfHSView
			if k.producer {
				web, _ = vfHSProducerView(farm, "m", initBody, false)
			} else {
				web, _ = vfHSExchangeView(farm, "m", initBody, false, inBatches)
			}
			for _, b := range inBatches {
				b.Release()
			}
			which := "first-call"
			if i > 0 {
				which = "later-call"
			}
			cls := "C11:call-sequence:" + k.name + ":" + which
			detail := func() string {
				return fmt.Sprintf("call #%d of %v (script,schema) limit=%d cache=%d instances=%d\n pipe: %s\n http: %s", i, calls, limit, cache, inst, pipe.String(), web.String())
			}
			if len(pipe.Problems) > 0 {
				x.Failf(cls+":pipe-run-broken", "%s", detail())
			}
			if len(web.Problems) > 0 {
				x.Failf(cls+":http-run-broken", "%s", detail())
			}
			for _, facet := range []string{"data", "log", "error"} {
				if !vfHSEq(pipe.Of(facet), web.Of(facet)) {
					x.Failf(cls+":"+facet+"-differs", "%s\n%s", vfC11Diff(pipe.Of(facet), web.Of(facet)), detail())
				}
			}
			outcome = append(outcome, web.String())
		}
		x.Outcome("%s|%s|req=%d", k.name, strings.Join(outcome, " || "), farm.Requests)
	})
}

var _ = array.NewInt64Builder
