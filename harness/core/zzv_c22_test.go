//go:build verif

package vgirpc

import (
	"bytes"
	"context"
	"errors"
	"fmt"
	"io"
	"log/slog"
	"net/http"
	"net/http/httptest"
	"strings"
	"testing"
	"time"

	"github.com/apache/arrow-go/v18/arrow"

	"github.com/Query-farm/vgi-rpc-go/vgirpc/internal/verif/venum"
)

// C22 — every RPC and control route is behind the authenticator.
//
// Space: feature combination {upload provider, introspection, sticky, PKCE}
// x proof gate {off, on without proof, on with a valid proof} x prefix
// {"", "/vgi"} x rejecting authenticator kind x every route/verb.
//
// Oracle (from the statement): when the configured authenticator rejects,
//   - no user handler, stream state, upload provider, introspection resolver,
//     rehydrate func or dispatch hook runs, on ANY route (custom routes may run
//     their own handler, the session-delete route may close a session);
//   - RPC routes and enabled control routes answer 401/503/500 and reveal
//     nothing (no method names, vended URLs or resolved principals in the body);
//   - CORS preflights, health probes, the OAuth metadata document, custom
//     routes and session-delete answer without authentication.
// A control kind ("accept") proves that each request is well-formed enough to
// reach the code whose counter must stay 0 under rejection (harness liveness,
// reported as an engine error, never as a violation).

type vfC22Counters struct {
	provider, resolver, rehydrate, hookStart, custom, sessClose, authCalls int
}

type vfC22Sess struct{ c *vfC22Counters }

func (s *vfC22Sess) Close() error { s.c.sessClose++; return nil }

type vfC22Hook struct{ c *vfC22Counters }

func (k *vfC22Hook) OnDispatchStart(ctx context.Context, info DispatchInfo) (context.Context, HookToken) {
	k.c.hookStart++
	return ctx, nil
}
func (k *vfC22Hook) OnDispatchEnd(ctx context.Context, token HookToken, info DispatchInfo, stats *CallStatistics, err error) {
}

type vfC22Provider struct{ c *vfC22Counters }

func (p *vfC22Provider) GenerateUploadURL(schema *arrow.Schema) (UploadURL, error) {
	p.c.provider++
	return UploadURL{
		UploadURL:   fmt.Sprintf("https://upload.example/put/%d", p.c.provider),
		DownloadURL: fmt.Sprintf("https://upload.example/get/%d", p.c.provider),
		ExpiresAt:   time.Unix(1_800_000_000, 0).UTC(),
	}, nil
}

type vfC22Kind struct {
	name string
	mk   func() error // nil => accept (control)
	// withCtx: the authenticator returns a NON-NIL *AuthContext together with
	// its error (e.g. a validate callback that builds the identity and then
	// refuses it). The error decides; the context must be ignored.
	withCtx bool
	// replacedLast: configuration history SetAuthenticate(A = accepts everyone)
	// -> every other setter (prefix, provider, sticky, introspection, PKCE ...)
	// -> SetAuthenticate(B = this kind). B is the configured authenticator; no
	// earlier setter may have kept a private copy of A.
	replacedLast bool
}

func vfC22Kinds() []vfC22Kind {
	ks := []vfC22Kind{
		{name: "accept"},
		{name: "rpc-ValueError", mk: func() error { return &RpcError{Type: "ValueError", Message: "no credentials"} }},
		{name: "rpc-PermissionError", mk: func() error { return &RpcError{Type: "PermissionError", Message: "denied"} }},
		{name: "failure-missing_credential", mk: func() error { return NewAuthFailure(AuthReasonMissingCredential, "none") }},
		{name: "failure-proxy_required", mk: func() error { return NewAuthFailure(AuthReasonProxyRequired, "") }},
		{name: "unavailable", mk: func() error { return &AuthUnavailableError{Detail: "idp down", RetryAfter: 3} }},
		{name: "plain-error", mk: func() error { return errors.New("backend exploded") }},
	}
	// (context, error) variants
	base := append([]vfC22Kind{}, ks[1:]...)
	for _, k := range base {
		switch k.name {
		case "rpc-PermissionError", "unavailable", "plain-error":
		default:
			if !venum.Thorough() {
				continue
			}
		}
		ks = append(ks, vfC22Kind{name: k.name + "+ctx", mk: k.mk, withCtx: true})
	}
	if venum.Thorough() {
		for _, r := range []AuthReason{AuthReasonInvalidCredential, AuthReasonExpiredCredential, AuthReasonInsufficientScope, AuthReasonUnauthorized, ""} {
			r := r
			n := string(r)
			if n == "" {
				n = "empty"
			}
			ks = append(ks, vfC22Kind{name: "failure-" + n, mk: func() error { return &AuthFailure{Reason: r} }})
		}
		ks = append(ks,
			vfC22Kind{name: "rpc-TypeError", mk: func() error { return &RpcError{Type: "TypeError", Message: "odd"} }},
			vfC22Kind{name: "wrapped-unavailable", mk: func() error { return fmt.Errorf("ctx: %w", NewAuthUnavailable("down")) }},
		)
	}
	// configuration-order variants (authenticator replaced after all other setters)
	n := len(ks)
	for _, k := range ks[1:n] {
		switch k.name {
		case "rpc-ValueError", "unavailable", "rpc-PermissionError+ctx":
		default:
			if !venum.Thorough() {
				continue
			}
		}
		k2 := k
		k2.name, k2.replacedLast = k.name+"@replaced-last", true
		ks = append(ks, k2)
	}
	return ks
}

// vfC22Env is one freshly built server plus the harness-side switches.
type vfC22Env struct {
	h      *HttpServer
	prefix string
	c      *vfC22Counters

	upload, introspect, sticky, pkce bool
	proof                            int // 0 off, 1 on / request carries no proof, 2 on / request carries a valid proof

	phase   string // "setup" or "test"
	setupID *AuthContext
	kind    vfC22Kind

	secret []byte
	nonceN int

	sameCred bool // space 2: every request carries the same credential headers; revoked decides the verdict
	revoked  bool
	caller string // space 2: value of the caller header on every request sent ("" = none => rejected)
	decor int // test-phase request decoration: 0 none, 1 Authorization: Bearer, 2 PKCE auth cookie

	cursor, call string // continuation tokens minted in the setup phase
	session      string // sticky session token minted in the setup phase
}

var vfC22ProofNow = time.Unix(1_700_000_000, 0)

const vfC22CallerHeader = "X-Vf-Caller"

const (
	vfC22MarkerMethod = "vfunary"
	vfC22MarkerURL    = "https://upload.example/"
	vfC22MarkerPrinc  = "resolved-principal"
)

func vfC22Build(x *venum.X, mask, proof int, prefix string, kind vfC22Kind) (*vfC22Env, error) {
	e := &vfC22Env{prefix: prefix, c: &vfC22Counters{}, kind: kind, proof: proof, phase: "setup",
		upload: mask&1 != 0, introspect: mask&2 != 0, sticky: mask&4 != 0, pkce: mask&8 != 0}
	c := e.c
	s := NewServer()
	Unary(s, vfC22MarkerMethod, func(ctx context.Context, cc *CallContext, p VfXParams) (int64, error) {
		vfEvents = append(vfEvents, VfEvent{What: "unary", Method: cc.Method})
		return p.X + 1, nil
	})
	Unary(s, "vfopen", func(ctx context.Context, cc *CallContext, p VfXParams) (int64, error) {
		vfEvents = append(vfEvents, VfEvent{What: "unary", Method: cc.Method})
		if err := cc.OpenSession(&vfC22Sess{c: c}, 0); err != nil {
			return 0, err
		}
		return 1, nil
	})
	Unary(s, "vfsess", func(ctx context.Context, cc *CallContext, p VfXParams) (int64, error) {
		vfEvents = append(vfEvents, VfEvent{What: "unary", Method: cc.Method, Input: fmt.Sprintf("sess=%v", cc.Session() != nil)})
		return 2, nil
	})
	Producer(s, "vfprod", vfOutSchema, vfInitHandler(func(p VfXParams) (*StreamResult, error) {
		return &StreamResult{OutputSchema: vfOutSchema, State: &VfProducer{S: VfScript{Name: "vfprod",
			Turns: []VfTurn{{Emit: 1, Rows: 1}, {Emit: 1, Rows: 1}, {Emit: 1, Rows: 1}, {Finish: true}}}}}, nil
	}))
	Exchange(s, "vfexch", vfOutSchema, vfInSchema, vfInitHandler(func(p VfXParams) (*StreamResult, error) {
		return &StreamResult{OutputSchema: vfOutSchema, State: &VfExchanger{S: VfScript{Name: "vfexch"}}}, nil
	}))
	s.SetDispatchHook(&vfC22Hook{c: c})

	h := NewHttpServer(s)
	e.h = h
	if prefix != "" {
		h.SetPrefix(prefix)
	}
	if e.upload {
		h.SetUploadURLProvider(&vfC22Provider{c: c}) // rebuilds the route table: before Handle/EnableSticky
	}
	custom := func(w http.ResponseWriter, r *http.Request) {
		c.custom++
		w.WriteHeader(http.StatusOK)
		_, _ = io.WriteString(w, "custom-ok")
	}
	h.Handle("GET "+prefix+"/vfcustom/ping", custom)
	h.Handle("POST "+prefix+"/vfcustom/do/it", custom)
	h.Handle("POST "+prefix+"/vfcustomrpc", custom)
	if e.sticky {
		h.EnableSticky(0)
	}
	if e.introspect {
		err := h.EnableTokenIntrospection(TokenIntrospectionConfig{
			Resolver: func(credential string) (TokenIdentity, bool, error) {
				c.resolver++
				return TokenIdentity{Principal: vfC22MarkerPrinc, TokenName: "tok"}, true, nil
			},
			Principals:         []string{"intro"},
			RateLimitPerSecond: 1000,
		})
		if err != nil {
			return nil, err
		}
	}
	h.SetRehydrateFunc(func(state interface{}, method string) error { c.rehydrate++; return nil })
	h.SetProducerBatchLimit(1)

	if kind.mk == nil {
		// control: one authenticated identity throughout (tokens are bound to it)
		e.setupID = &AuthContext{Domain: "vf", Authenticated: true, Principal: "intro"}
	} else {
		e.setupID = Anonymous()
	}
	if kind.withCtx {
		// tokens / sessions minted in the setup phase belong to the very
		// identity the rejecting authenticator hands back with its error
		e.setupID = &AuthContext{Domain: "vf", Authenticated: true, Principal: "intro"}
	}
	var auth AuthenticateFunc = func(r *http.Request) (*AuthContext, error) {
		c.authCalls++
		// Space 2, "same credential" histories: every request carries the SAME
		// credential headers; the verdict for that credential is server-side
		// state of the authenticator (valid until the harness revokes it), so
		// nothing in the request distinguishes "accepted" from "rejected".
		if e.sameCred {
			if !e.revoked {
				return &AuthContext{Domain: "vf", Authenticated: true, Principal: "intro"}, nil
			}
			if e.kind.withCtx {
				return &AuthContext{Domain: "vf", Authenticated: true, Principal: "intro"}, e.kind.mk()
			}
			return nil, e.kind.mk()
		}
		// Space 2 (histories): the caller is decided per request from a header.
		switch r.Header.Get(vfC22CallerHeader) {
		case "intro":
			return &AuthContext{Domain: "vf", Authenticated: true, Principal: "intro"}, nil
		case "anon":
			return Anonymous(), nil
		}
		if e.phase == "setup" || e.kind.mk == nil {
			return e.setupID, nil
		}
		if e.kind.withCtx {
			return &AuthContext{Domain: "vf", Authenticated: true, Principal: "intro"}, e.kind.mk()
		}
		return nil, e.kind.mk()
	}
	if proof != 0 {
		e.secret = bytes.Repeat([]byte{0x5a}, proofSecretLen)
		gated, err := ProofAuthenticate(ProofConfig{
			Mode: ProofModeRequire, OriginID: "worker-1", SkewSeconds: 30,
			Secrets: map[string]ProofSecret{"k1": {Secret: e.secret, Label: "edge"}},
			Now:     func() time.Time { return vfC22ProofNow },
		}, auth)
		if err != nil {
			return nil, err
		}
		auth = gated
		h.SetProxyProofRequired(true)
	}
	if kind.replacedLast {
		// A: an earlier, permissive authenticator that is replaced below
		h.SetAuthenticate(func(r *http.Request) (*AuthContext, error) {
			return &AuthContext{Domain: "vf", Authenticated: true, Principal: "intro"}, nil
		})
	} else {
		h.SetAuthenticate(auth)
	}
	if e.pkce {
		if err := h.SetOAuthResourceMetadata(&OAuthResourceMetadata{
			Resource:             "https://api.example.com" + prefix,
			AuthorizationServers: []string{"https://idp.invalid"},
			ClientID:             "cid",
		}); err != nil {
			return nil, err
		}
		if err := h.SetOAuthPkce(OAuthPkceConfig{}); err != nil {
			return nil, err
		}
		// OIDC discovery is never allowed to reach the network.
		h.pkce.oidcDiscovery = func() (string, string, bool) {
			return "https://idp.invalid/authorize", "https://idp.invalid/token", true
		}
	}
	if kind.replacedLast {
		h.SetAuthenticate(auth) // B replaces A after every other setter has run
	}
	return e, nil
}

func (e *vfC22Env) close() {
	if dh := e.h.DrainHandle(); dh != nil {
		dh.Shutdown() // stops the sticky reaper goroutine, if one was started
	}
}

// rejecting reports whether the test request is expected to be rejected.
func (e *vfC22Env) rejecting() bool { return e.kind.mk != nil || e.proof == 1 }

func (e *vfC22Env) do(method, path string, body []byte, hdr ...string) (*httptest.ResponseRecorder, any) {
	all := append([]string{}, hdr...)
	if e.proof == 2 || (e.proof == 1 && e.phase == "setup") {
		e.nonceN++
		tok, err := MintProof(e.secret, "k1", "worker-1", vfC22ProofNow.Unix(), fmt.Sprintf("%022d", e.nonceN))
		if err != nil {
			panic("C22 harness: MintProof: " + err.Error())
		}
		all = append(all, ProofHeader, tok)
	}
	if e.caller != "" {
		all = append(all, vfC22CallerHeader, e.caller)
	}
	if e.sameCred {
		all = append(all,
			"Authorization", "Bearer K-live-credential",
			"Cookie", authCookieName+"=K-live-credential",
			"X-Forwarded-Client-Cert", `Hash=abc;Subject="CN=intro"`,
			"X-Api-Key", "K-live-credential")
	}
	if e.phase == "test" {
		switch e.decor {
		case 1:
			all = append(all, "Authorization", "Bearer stolen-or-stale")
		case 2:
			all = append(all, "Cookie", authCookieName+"=stolen-or-stale")
		}
	}
	return vfHTTP(e.h, method, path, body, all...)
}

func (e *vfC22Env) arrow(path string, body []byte, hdr ...string) (*httptest.ResponseRecorder, any) {
	return e.do("POST", path, body, append([]string{"Content-Type", arrowContentType}, hdr...)...)
}

// vfC22Route is one request shape.
type vfC22Route struct {
	name  string
	class string // "rpc" | "control" | "open" | "other"
	// needs: feature that must be on for a control/open route to be live
	needs func(e *vfC22Env) bool
	setup func(e *vfC22Env) error
	send  func(e *vfC22Env) (*httptest.ResponseRecorder, any)
	// live: in control mode, did the request reach the code it targets?
	live func(e *vfC22Env, rec *httptest.ResponseRecorder, ev []VfEvent) bool
	// open routes: accepted statuses when live (nil = any)
	openStatus   []int
	mayCustom    bool
	maySessClose bool
}

func vfC22HasEvent(ev []VfEvent, what string) bool {
	for _, e := range ev {
		if e.What == what {
			return true
		}
	}
	return false
}

func vfC22Routes() []vfC22Route {
	always := func(e *vfC22Env) bool { return true }
	initStream := func(method string) func(e *vfC22Env) error {
		return func(e *vfC22Env) error {
			rec, pan := e.arrow(e.prefix+"/"+method+"/init", vfXReq(method, 0))
			if pan != nil || rec.Code != 200 {
				return fmt.Errorf("setup init %s: status %d panic %v body %q", method, rec.Code, pan, rec.Body.String())
			}
			st, _, err := vfParseStreams(rec.Body.Bytes())
			if err != nil {
				return err
			}
			e.cursor, e.call = vfTokens(st)
			if e.cursor == "" {
				return fmt.Errorf("setup init %s: no cursor token", method)
			}
			return nil
		}
	}
	openSession := func(e *vfC22Env) error {
		if !e.sticky {
			return nil
		}
		rec, pan := e.arrow(e.prefix+"/vfopen", vfXReq("vfopen", 0), stickySessionAcceptHeader, "true")
		if pan != nil || rec.Code != 200 {
			return fmt.Errorf("setup open session: status %d panic %v", rec.Code, pan)
		}
		e.session = rec.Header().Get(stickySessionHeader)
		if e.session == "" {
			return fmt.Errorf("setup open session: no %s header", stickySessionHeader)
		}
		return nil
	}
	get := func(path func(e *vfC22Env) string, hdr ...string) func(e *vfC22Env) (*httptest.ResponseRecorder, any) {
		return func(e *vfC22Env) (*httptest.ResponseRecorder, any) { return e.do("GET", path(e), nil, hdr...) }
	}
	p := func(suffix string) func(e *vfC22Env) string {
		return func(e *vfC22Env) string { return e.prefix + suffix }
	}
	root := func(e *vfC22Env) string {
		if e.prefix == "" {
			return "/"
		}
		return e.prefix
	}
	isPkce := func(e *vfC22Env) bool { return e.pkce }
	noPkce := func(e *vfC22Env) bool { return !e.pkce }

	rs := []vfC22Route{
		// ---------------- RPC routes ----------------
		{name: "POST /{unary}", class: "rpc", needs: always,
			send: func(e *vfC22Env) (*httptest.ResponseRecorder, any) {
				return e.arrow(e.prefix+"/"+vfC22MarkerMethod, vfXReq(vfC22MarkerMethod, 1))
			},
			live: func(e *vfC22Env, rec *httptest.ResponseRecorder, ev []VfEvent) bool {
				return rec.Code == 200 && vfC22HasEvent(ev, "unary") && e.c.hookStart == 1
			}},
		{name: "POST /__describe__", class: "rpc", needs: always,
			send: func(e *vfC22Env) (*httptest.ResponseRecorder, any) {
				return e.arrow(e.prefix+"/__describe__", vfNoParamsReq("__describe__"))
			},
			live: func(e *vfC22Env, rec *httptest.ResponseRecorder, ev []VfEvent) bool {
				return rec.Code == 200 && strings.Contains(rec.Body.String(), vfC22MarkerMethod)
			}},
		{name: "POST /{unknown}", class: "rpc", needs: always,
			send: func(e *vfC22Env) (*httptest.ResponseRecorder, any) {
				return e.arrow(e.prefix+"/nosuchmethod", vfXReq("nosuchmethod", 1))
			},
			live: func(e *vfC22Env, rec *httptest.ResponseRecorder, ev []VfEvent) bool { return rec.Code == 404 }},
		{name: "POST /{producer}/init", class: "rpc", needs: always,
			send: func(e *vfC22Env) (*httptest.ResponseRecorder, any) {
				return e.arrow(e.prefix+"/vfprod/init", vfXReq("vfprod", 0))
			},
			live: func(e *vfC22Env, rec *httptest.ResponseRecorder, ev []VfEvent) bool {
				return rec.Code == 200 && vfC22HasEvent(ev, "init") && vfC22HasEvent(ev, "produce") && e.c.hookStart == 1
			}},
		{name: "POST /{exchange}/init", class: "rpc", needs: always,
			send: func(e *vfC22Env) (*httptest.ResponseRecorder, any) {
				return e.arrow(e.prefix+"/vfexch/init", vfXReq("vfexch", 0))
			},
			live: func(e *vfC22Env, rec *httptest.ResponseRecorder, ev []VfEvent) bool {
				return rec.Code == 200 && vfC22HasEvent(ev, "init")
			}},
		{name: "POST /{exchange}/exchange valid-token", class: "rpc", needs: always, setup: initStream("vfexch"),
			send: func(e *vfC22Env) (*httptest.ResponseRecorder, any) {
				return e.arrow(e.prefix+"/vfexch/exchange", vfExchangeBody(vfI64Batch("x", 5), e.cursor, e.call))
			},
			live: func(e *vfC22Env, rec *httptest.ResponseRecorder, ev []VfEvent) bool {
				return rec.Code == 200 && vfC22HasEvent(ev, "exchange") && e.c.rehydrate == 1 && e.c.hookStart == 2
			}},
		{name: "POST /{producer}/exchange valid-token", class: "rpc", needs: always, setup: initStream("vfprod"),
			send: func(e *vfC22Env) (*httptest.ResponseRecorder, any) {
				return e.arrow(e.prefix+"/vfprod/exchange", vfExchangeBody(vfEmpty(vfEmptySchema), e.cursor, e.call))
			},
			live: func(e *vfC22Env, rec *httptest.ResponseRecorder, ev []VfEvent) bool {
				return rec.Code == 200 && vfC22HasEvent(ev, "produce") && e.c.rehydrate == 1
			}},
		{name: "POST /{exchange}/exchange cancel", class: "rpc", needs: always, setup: initStream("vfexch"),
			send: func(e *vfC22Env) (*httptest.ResponseRecorder, any) {
				return e.arrow(e.prefix+"/vfexch/exchange", vfExchangeBody(vfEmpty(vfEmptySchema), e.cursor, e.call, MetaCancel, "true"))
			},
			live: func(e *vfC22Env, rec *httptest.ResponseRecorder, ev []VfEvent) bool {
				return vfC22HasEvent(ev, "cancel")
			}},
		{name: "POST /{exchange}/exchange no-token", class: "rpc", needs: always,
			send: func(e *vfC22Env) (*httptest.ResponseRecorder, any) {
				return e.arrow(e.prefix+"/vfexch/exchange", vfExchangeBody(vfI64Batch("x", 5), "", ""))
			},
			live: func(e *vfC22Env, rec *httptest.ResponseRecorder, ev []VfEvent) bool { return rec.Code == 400 }},
		{name: "POST /{unary} with VGI-Session", class: "rpc", needs: always, setup: openSession,
			send: func(e *vfC22Env) (*httptest.ResponseRecorder, any) {
				hdr := []string{}
				if e.session != "" {
					hdr = append(hdr, stickySessionHeader, e.session)
				}
				return e.arrow(e.prefix+"/vfsess", vfXReq("vfsess", 1), hdr...)
			},
			live: func(e *vfC22Env, rec *httptest.ResponseRecorder, ev []VfEvent) bool {
				if rec.Code != 200 {
					return false
				}
				for _, v := range ev {
					if v.Method == "vfsess" && v.Input == fmt.Sprintf("sess=%v", e.sticky) {
						return true
					}
				}
				return false
			}},
		// ---------------- control routes ----------------
		{name: "POST /__upload_url__/init", class: "control", needs: func(e *vfC22Env) bool { return e.upload },
			send: func(e *vfC22Env) (*httptest.ResponseRecorder, any) {
				return e.arrow(e.prefix+"/__upload_url__/init", vfRequest(UploadURLMethod, vfI64Batch("count", 2)))
			},
			live: func(e *vfC22Env, rec *httptest.ResponseRecorder, ev []VfEvent) bool {
				return rec.Code == 200 && e.c.provider == 2 && strings.Contains(rec.Body.String(), vfC22MarkerURL)
			}},
		{name: "POST /__introspect_token__", class: "control", needs: func(e *vfC22Env) bool { return e.introspect },
			send: func(e *vfC22Env) (*httptest.ResponseRecorder, any) {
				return e.do("POST", e.prefix+IntrospectEndpoint, []byte(`{"token":"opaque-credential-1"}`), "Content-Type", "application/json")
			},
			live: func(e *vfC22Env, rec *httptest.ResponseRecorder, ev []VfEvent) bool {
				return rec.Code == 200 && e.c.resolver == 1 && strings.Contains(rec.Body.String(), vfC22MarkerPrinc)
			}},
		// ---------------- listed: reachable without authentication ----------------
		{name: "OPTIONS /{unary}", class: "open", needs: always, openStatus: []int{204},
			send: func(e *vfC22Env) (*httptest.ResponseRecorder, any) {
				return e.do("OPTIONS", e.prefix+"/"+vfC22MarkerMethod, nil, "Origin", "https://app.example", "Access-Control-Request-Method", "POST")
			}},
		{name: "OPTIONS /__upload_url__/init", class: "open", needs: always, openStatus: []int{204},
			send: func(e *vfC22Env) (*httptest.ResponseRecorder, any) {
				return e.do("OPTIONS", e.prefix+"/__upload_url__/init", nil)
			}},
		{name: "OPTIONS /health", class: "open", needs: always, openStatus: []int{204},
			send: func(e *vfC22Env) (*httptest.ResponseRecorder, any) { return e.do("OPTIONS", "/health", nil) }},
		{name: "OPTIONS /_oauth/token", class: "open", needs: always, openStatus: []int{204},
			send: func(e *vfC22Env) (*httptest.ResponseRecorder, any) {
				return e.do("OPTIONS", e.prefix+"/_oauth/token", nil, "Origin", "http://localhost:3000")
			}},
		{name: "GET /health", class: "open", needs: always, openStatus: []int{200},
			send: func(e *vfC22Env) (*httptest.ResponseRecorder, any) { return e.do("GET", "/health", nil) }},
		{name: "GET {prefix}/health", class: "open", needs: always, openStatus: []int{200}, send: get(p("/health"))},
		{name: "HEAD /health", class: "open", needs: always, openStatus: []int{200},
			send: func(e *vfC22Env) (*httptest.ResponseRecorder, any) { return e.do("HEAD", "/health", nil) }},
		{name: "GET well-known", class: "open", needs: isPkce, openStatus: []int{200},
			send: get(func(e *vfC22Env) string { return wellKnownURL(e.prefix) })},
		{name: "GET landing", class: "open", needs: noPkce, openStatus: []int{200}, send: get(root)},
		{name: "GET landing browser", class: "open", needs: noPkce, openStatus: []int{200}, send: get(root, "Accept", "text/html")},
		{name: "GET /describe page", class: "open", needs: noPkce, openStatus: []int{200}, send: get(p("/describe"))},
		{name: "GET /describe page browser", class: "open", needs: noPkce, openStatus: []int{200}, send: get(p("/describe"), "Accept", "text/html")},
		{name: "GET not-found page", class: "open", needs: always, openStatus: []int{404}, send: get(p("/no/such/page"))},
		{name: "GET /_oauth/callback bare", class: "open", needs: isPkce, openStatus: []int{400}, send: get(p("/_oauth/callback"))},
		{name: "GET /_oauth/callback code no-cookie", class: "open", needs: isPkce, openStatus: []int{400}, send: get(p("/_oauth/callback?code=c&state=s"))},
		{name: "GET /_oauth/callback idp-error", class: "open", needs: isPkce, openStatus: []int{400}, send: get(p("/_oauth/callback?error=access_denied"))},
		{name: "GET /_oauth/logout", class: "open", needs: isPkce, openStatus: []int{302}, send: get(p("/_oauth/logout"))},
		{name: "POST /_oauth/token wrong-content-type", class: "open", needs: isPkce, openStatus: []int{415},
			send: func(e *vfC22Env) (*httptest.ResponseRecorder, any) {
				return e.do("POST", e.prefix+"/_oauth/token", []byte(`{}`), "Content-Type", "application/json")
			}},
		{name: "POST /_oauth/token bad-grant", class: "open", needs: isPkce, openStatus: []int{400},
			send: func(e *vfC22Env) (*httptest.ResponseRecorder, any) {
				return e.do("POST", e.prefix+"/_oauth/token", []byte(`grant_type=client_credentials`), "Content-Type", "application/x-www-form-urlencoded")
			}},
		{name: "GET custom", class: "open", needs: always, openStatus: []int{200}, mayCustom: true, send: get(p("/vfcustom/ping"))},
		{name: "POST custom deep", class: "open", needs: always, openStatus: []int{200}, mayCustom: true,
			send: func(e *vfC22Env) (*httptest.ResponseRecorder, any) {
				return e.do("POST", e.prefix+"/vfcustom/do/it", []byte("x"))
			}},
		{name: "POST custom shadowing {method}", class: "open", needs: always, openStatus: []int{200}, mayCustom: true,
			send: func(e *vfC22Env) (*httptest.ResponseRecorder, any) {
				return e.arrow(e.prefix+"/vfcustomrpc", vfXReq("vfcustomrpc", 1))
			}},
		{name: "DELETE /__session__ no-token", class: "open", needs: func(e *vfC22Env) bool { return e.sticky }, openStatus: []int{200},
			send: func(e *vfC22Env) (*httptest.ResponseRecorder, any) { return e.do("DELETE", e.prefix+"/__session__", nil) }},
		{name: "DELETE /__session__ garbage-token", class: "open", needs: func(e *vfC22Env) bool { return e.sticky }, openStatus: []int{200},
			send: func(e *vfC22Env) (*httptest.ResponseRecorder, any) {
				return e.do("DELETE", e.prefix+"/__session__", nil, stickySessionHeader, "AAAAnot-a-token")
			}},
		{name: "DELETE /__session__ live-token", class: "open", needs: func(e *vfC22Env) bool { return e.sticky }, openStatus: []int{200, 204},
			setup: openSession, maySessClose: true,
			send: func(e *vfC22Env) (*httptest.ResponseRecorder, any) {
				hdr := []string{}
				if e.session != "" {
					hdr = append(hdr, stickySessionHeader, e.session)
				}
				return e.do("DELETE", e.prefix+"/__session__", nil, hdr...)
			}},
		// ---------------- everything else: only "no work" is demanded ----------------
		{name: "GET landing (pkce)", class: "other", needs: isPkce, send: get(root)},
		{name: "GET landing browser (pkce)", class: "other", needs: isPkce, send: get(root, "Accept", "text/html")},
		{name: "GET /describe page (pkce)", class: "other", needs: isPkce, send: get(p("/describe"))},
		{name: "GET /describe page browser (pkce)", class: "other", needs: isPkce, send: get(p("/describe"), "Accept", "text/html")},
		{name: "GET /__session__", class: "other", needs: always, send: get(p("/__session__"))},
		{name: "GET /{unary}", class: "other", needs: always, send: get(p("/" + vfC22MarkerMethod))},
		{name: "GET /__describe__", class: "other", needs: always, send: get(p("/__describe__"))},
		{name: "GET /__upload_url__/init", class: "other", needs: always, send: get(p("/__upload_url__/init"))},
		{name: "GET /__introspect_token__", class: "other", needs: always, send: get(p(IntrospectEndpoint))},
		{name: "DELETE /{unary}", class: "other", needs: always,
			send: func(e *vfC22Env) (*httptest.ResponseRecorder, any) {
				return e.do("DELETE", e.prefix+"/"+vfC22MarkerMethod, vfXReq(vfC22MarkerMethod, 1), "Content-Type", arrowContentType)
			}},
		{name: "PUT /{producer}/init", class: "other", needs: always,
			send: func(e *vfC22Env) (*httptest.ResponseRecorder, any) {
				return e.do("PUT", e.prefix+"/vfprod/init", vfXReq("vfprod", 0), "Content-Type", arrowContentType)
			}},
		{name: "POST /{producer}/init/extra", class: "other", needs: always,
			send: func(e *vfC22Env) (*httptest.ResponseRecorder, any) {
				return e.arrow(e.prefix+"/vfprod/init/extra", vfXReq("vfprod", 0))
			}},
		{name: "POST /{unary} under the other prefix", class: "other", needs: always,
			send: func(e *vfC22Env) (*httptest.ResponseRecorder, any) {
				other := "/vgi"
				if e.prefix != "" {
					other = ""
				}
				return e.arrow(other+"/"+vfC22MarkerMethod, vfXReq(vfC22MarkerMethod, 1))
			}},
		{name: "POST /{exchange}/exchange under the other prefix", class: "other", needs: always, setup: initStream("vfexch"),
			send: func(e *vfC22Env) (*httptest.ResponseRecorder, any) {
				other := "/vgi"
				if e.prefix != "" {
					other = ""
				}
				return e.arrow(other+"/vfexch/exchange", vfExchangeBody(vfI64Batch("x", 5), e.cursor, e.call))
			}},
	}
	return rs
}

func TestVerif_C22(t *testing.T) {
	venum.Begin("C22")
	defer venum.Finish(t)
	prev := slog.Default()
	slog.SetDefault(slog.New(slog.NewTextHandler(io.Discard, nil)))
	defer slog.SetDefault(prev)

	kinds := vfC22Kinds()
	routes := vfC22Routes()
	prefixes := []string{"", "/vgi"}
	venum.SetInfo("routes", fmt.Sprint(len(routes)))
	venum.SetInfo("reject_kinds", fmt.Sprint(len(kinds)-1))

	venum.Explore(t, venum.Cfg{Name: "routes-under-rejection", Shardable: true}, func(x *venum.X) {
		cfg := x.Choose(48, "features*proof") // 16 feature masks x 3 proof modes
		mask, proof := cfg%16, cfg/16
		prefix := prefixes[x.Choose(len(prefixes), "prefix")]
		kind := kinds[x.Choose(len(kinds), "authenticator")]
		rt := routes[x.Choose(len(routes), "route")]
		decor := 0
		if venum.Thorough() {
			decor = x.Choose(3, "credential-decoration")
		}

		vfResetEvents()
		e, err := vfC22Build(x, mask, proof, prefix, kind)
		if err != nil {
			venum.EngineError("C22 server setup (mask=%d proof=%d prefix=%q): %v", mask, proof, prefix, err)
			return
		}
		e.decor = decor
		defer e.close()
		x.Note("features: upload=%v introspect=%v sticky=%v pkce=%v proof=%d prefix=%q authenticator=%s route=%q",
			e.upload, e.introspect, e.sticky, e.pkce, proof, prefix, kind.name, rt.name)

		// setup phase: the authenticator accepts (tokens / sessions are minted)
		if rt.setup != nil {
			if err := rt.setup(e); err != nil {
				venum.EngineError("C22 setup for route %q (mask=%d proof=%d prefix=%q kind=%s): %v", rt.name, mask, proof, prefix, kind.name, err)
				return
			}
		}
		// test phase
		e.phase = "test"
		before := *e.c
		evBefore := len(vfEvents)
		rec, pan := rt.send(e)
		ev := append([]VfEvent{}, vfEvents[evBefore:]...)
		d := vfC22Counters{
			provider: e.c.provider - before.provider, resolver: e.c.resolver - before.resolver,
			rehydrate: e.c.rehydrate - before.rehydrate, hookStart: e.c.hookStart - before.hookStart,
			custom: e.c.custom - before.custom, sessClose: e.c.sessClose - before.sessClose,
			authCalls: e.c.authCalls - before.authCalls,
		}
		sig := "C22:route:" + rt.name
		if kind.replacedLast {
			sig = "C22:reconfigured:route:" + rt.name
		}
		if pan != nil {
			x.Failf(sig+":panic", "panic escaped ServeHTTP: %v", pan)
			return
		}
		code := rec.Code
		live := rt.needs(e)

		if !e.rejecting() {
			// control: the request must reach what it targets, otherwise the
			// "counter stays 0" oracle would be vacuous for this route.
			if live && rt.live != nil && !rt.live(e, rec, ev) {
				venum.EngineError("C22 liveness: route %q does not reach its target when the authenticator accepts (status %d, events %v, counters %+v, mask=%d proof=%d prefix=%q)",
					rt.name, code, ev, *e.c, mask, proof, prefix)
			}
			if live && rt.class == "open" && rt.openStatus != nil && !vfC22IntIn(code, rt.openStatus) {
				venum.EngineError("C22 liveness: open route %q answers %d with an accepting authenticator, expected %v", rt.name, code, rt.openStatus)
			}
			x.Outcome("control|%s|%d|ev=%d|%+v", rt.name, code, len(ev), d)
			return
		}

		// ---- the authenticator rejects ----
		vfC22CheckRejected(x, sig, rt, e, rec, ev, d, kind.name, proof != 1)
		x.Outcome("%s|%s|%d|live=%v|%+v", rt.class, rt.name, code, live, d)
	})

	// ------------------------------------------------------------------
	// Space 2: two-request histories on ONE server. Request 1 comes from a
	// caller the authenticator accepts (decided per request from a header),
	// request 2 -- on the same or another RPC/control route -- from a caller
	// it rejects. Anything request 1 leaves behind in the server (caches,
	// tokens, sessions, lazily initialised state) must not let request 2
	// through.
	var guarded []vfC22Route
	for _, r := range routes {
		if r.class == "rpc" || r.class == "control" {
			guarded = append(guarded, r)
		}
	}
	type histCfg struct {
		mask   int
		prefix string
	}
	histCfgs := []histCfg{{7, ""}, {7, "/vgi"}, {15, ""}, {15, "/vgi"}}
	var histKinds []vfC22Kind
	for _, k := range kinds {
		switch k.name {
		case "rpc-ValueError", "unavailable", "plain-error", "rpc-PermissionError+ctx", "rpc-ValueError@replaced-last":
			histKinds = append(histKinds, k)
		case "rpc-PermissionError", "failure-missing_credential":
			if venum.Thorough() {
				histKinds = append(histKinds, k)
			}
		}
	}
	venum.SetInfo("history_routes", fmt.Sprint(len(guarded)))
	venum.Explore(t, venum.Cfg{Name: "accepted-then-rejected", Shardable: true}, func(x *venum.X) {
		first := guarded[x.Choose(len(guarded), "route1(accepted)")]
		second := guarded[x.Choose(len(guarded), "route2(rejected)")]
		hc := histCfgs[x.Choose(len(histCfgs), "features+prefix")]
		kind := histKinds[x.Choose(len(histKinds), "authenticator")]
		// why request 2 is rejected: another caller, or the SAME credential
		// whose verdict changed (revoked / expired since request 1)
		cause := x.Pick("rejection-cause", "other-caller", "revoked-credential")

		vfResetEvents()
		e, err := vfC22Build(x, hc.mask, 0, hc.prefix, kind)
		if err != nil {
			venum.EngineError("C22 history server setup: %v", err)
			return
		}
		defer e.close()
		e.phase = "test" // no caller header => rejected with kind
		x.Note("mask=%d prefix=%q authenticator=%s cause=%s: accepted %q then rejected %q", hc.mask, hc.prefix, kind.name, cause, first.name, second.name)

		// request 1: accepted caller "intro" (its setup requests too)
		e.caller = "intro"
		if cause == "revoked-credential" {
			e.caller, e.sameCred = "", true
		}
		if first.setup != nil {
			if err := first.setup(e); err != nil {
				venum.EngineError("C22 history: setup of first route %q: %v", first.name, err)
				return
			}
		}
		ev0 := len(vfEvents)
		rec1, pan1 := first.send(e)
		if pan1 != nil {
			x.Failf("C22:history:first:"+first.name+":panic", "panic on the accepted request: %v", pan1)
			return
		}
		if first.needs(e) && first.live != nil && !first.live(e, rec1, vfEvents[ev0:]) {
			venum.EngineError("C22 history liveness: accepted request on %q did not reach its target (status %d, counters %+v)", first.name, rec1.Code, *e.c)
		}

		// setup for request 2 is done by an accepted ANONYMOUS caller, so a
		// "falls back to anonymous" defect can open the tokens it mints
		e.caller = "anon"
		if cause == "revoked-credential" {
			e.caller = "" // same credential, still valid: tokens are minted for the very principal that is revoked next
		} else if kind.withCtx {
			e.caller = "intro" // the identity the rejecting authenticator hands back with its error
		}
		if second.setup != nil {
			if err := second.setup(e); err != nil {
				venum.EngineError("C22 history: setup of second route %q: %v", second.name, err)
				return
			}
		}
		// request 2: no caller header => the authenticator rejects; in the
		// revoked-credential histories the request is header-for-header what an
		// accepted request looked like a moment ago
		e.caller = ""
		e.revoked = true
		before := *e.c
		evBefore := len(vfEvents)
		rec, pan := second.send(e)
		ev := append([]VfEvent{}, vfEvents[evBefore:]...)
		d := vfC22Counters{
			provider: e.c.provider - before.provider, resolver: e.c.resolver - before.resolver,
			rehydrate: e.c.rehydrate - before.rehydrate, hookStart: e.c.hookStart - before.hookStart,
			custom: e.c.custom - before.custom, sessClose: e.c.sessClose - before.sessClose,
			authCalls: e.c.authCalls - before.authCalls,
		}
		rel := "after-other-route"
		if first.name == second.name {
			rel = "after-same-route"
		}
		sig := "C22:history:" + rel + ":route:" + second.name
		if cause == "revoked-credential" {
			sig = "C22:history:revoked-credential:" + rel + ":route:" + second.name
		}
		if pan != nil {
			x.Failf(sig+":panic", "panic escaped ServeHTTP: %v", pan)
			return
		}
		vfC22CheckRejected(x, sig, second, e, rec, ev, d, kind.name, true)
		x.Outcome("%s|%s|%d -> %s|%d|%+v", cause, first.name, rec1.Code, second.name, rec.Code, d)
	})
}

// vfC22CheckRejected is the oracle for one request sent by a caller the
// authenticator rejects. consulted: demand that the configured authenticator
// was actually invoked for RPC routes and enabled control routes (not when a
// proof gate in front of it refuses first).
func vfC22CheckRejected(x *venum.X, sig string, rt vfC22Route, e *vfC22Env, rec *httptest.ResponseRecorder, ev []VfEvent, d vfC22Counters, kindName string, consulted bool) {
	code := rec.Code
	body := rec.Body.String()
	live := rt.needs(e)
	if len(ev) != 0 {
		x.Failf(sig+":user-code-ran", "user code ran under a rejecting authenticator (%s): %v (status %d)", kindName, vfEventStringsOf(ev), code)
	}
	if d.provider != 0 {
		x.Failf(sig+":provider-ran", "upload-URL provider invoked %d times under a rejecting authenticator (%s); status %d", d.provider, kindName, code)
	}
	if d.resolver != 0 {
		x.Failf(sig+":resolver-ran", "introspection resolver invoked %d times under a rejecting authenticator (%s); status %d", d.resolver, kindName, code)
	}
	if d.rehydrate != 0 {
		x.Failf(sig+":rehydrate-ran", "rehydrate func invoked %d times under a rejecting authenticator (%s); status %d", d.rehydrate, kindName, code)
	}
	if d.hookStart != 0 {
		x.Failf(sig+":hook-ran", "dispatch hook started %d times under a rejecting authenticator (%s); status %d", d.hookStart, kindName, code)
	}
	if d.custom != 0 && !rt.mayCustom {
		x.Failf(sig+":custom-handler-ran", "a custom handler ran for a request that does not address it")
	}
	if d.sessClose != 0 && !rt.maySessClose {
		x.Failf(sig+":session-closed", "a session state was closed by a rejected request")
	}
	for _, marker := range []string{vfC22MarkerMethod, vfC22MarkerURL, vfC22MarkerPrinc} {
		if (rt.class == "rpc" || rt.class == "control") && strings.Contains(body, marker) {
			x.Failf(sig+":reveals", "rejected request's response body contains %q (status %d)", marker, code)
		}
	}
	switch rt.class {
	case "rpc":
		if code != 401 && code != 503 && code != 500 {
			x.Failf(sig+":status", "RPC route answered %d under a rejecting authenticator (%s), want 401/503/500", code, kindName)
		}
	case "control":
		if live && code != 401 && code != 503 && code != 500 {
			x.Failf(sig+":status", "control route answered %d under a rejecting authenticator (%s), want 401/503/500", code, kindName)
		}
	case "open":
		if live && rt.openStatus != nil && !vfC22IntIn(code, rt.openStatus) {
			x.Failf(sig+":not-reachable", "route listed as reachable without authentication answered %d (want %v) under a rejecting authenticator (%s)", code, rt.openStatus, kindName)
		}
		if live && rt.mayCustom && d.custom != 1 {
			x.Failf(sig+":custom-not-reached", "custom route handler ran %d times", d.custom)
		}
	}
	if code == 0 {
		x.Failf(sig+":no-status", "no status written")
	}
	if consulted && (rt.class == "rpc" || (rt.class == "control" && live)) && d.authCalls == 0 {
		x.Failf(sig+":authenticator-not-consulted", "the configured authenticator was never invoked for this request (status %d)", code)
	}
}

func vfC22IntIn(v int, set []int) bool {
	for _, s := range set {
		if s == v {
			return true
		}
	}
	return false
}

func vfEventStringsOf(ev []VfEvent) []string {
	out := make([]string, len(ev))
	for i, e := range ev {
		out[i] = fmt.Sprintf("%s@%s", e.What, e.Method)
	}
	return out
}
