//go:build verif

package vgirpc

import (
	"bufio"
	"bytes"
	"compress/gzip"
	"context"
	"errors"
	"fmt"
	"io"
	"net"
	"net/http"
	"net/http/httptest"
	"sort"
	"strings"
	"sync"
	"testing"

	"github.com/apache/arrow-go/v18/arrow"
	"github.com/apache/arrow-go/v18/arrow/array"
	"github.com/apache/arrow-go/v18/arrow/ipc"
	"github.com/klauspost/compress/zstd"

	"github.com/Query-farm/vgi-rpc-go/vgirpc/internal/verif/venum"
)

// C21 — the native HTTP client returns the server's stream and never replays a cursor.
//
// The client (NewHttpClient + WithClientHTTPClient) talks to a REAL HttpServer
// through an in-memory RoundTripper: each request is handed to ServeHTTP on a
// recorder, the recorded response is (optionally) damaged by the fault chosen by
// x.Deviate at that response, and handed back. The RoundTripper logs every
// request (path + the vgi_rpc.stream_state it carries) and the undamaged
// response the server produced; the oracle compares the client's return values
// with that log.

// ---------------------------------------------------------------------------
// faults

type vfC21Fault struct {
	name string
	// class: "ok" (untouched), "must" (the client has to reject: the response
	// does not match what was declared / is missing / is over a limit),
	// "may" (damage the client cannot always see: accepted only if the data
	// still equals what the server sent), "benign" (a different but correctly
	// declared encoding of the same bytes).
	class string
}

var vfC21Faults = []vfC21Fault{
	{"ok", "ok"},
	{"drop-after-server", "must"},
	{"drop-before-server", "must"},
	// the caller's own context is cancelled after the server ran the turn and before the
	// response is handed back (a client-side timeout / abandoned call): the turn's outcome is
	// unknown to the caller, so it is ambiguous like any other lost response
	{"ctx-cancelled-after-server", "must"},
	{"status-500", "must"},
	{"status-404", "must"},
	{"empty-body", "must"},
	{"truncate-half", "must"},
	{"truncate-last-byte", "may"},
	{"truncate-eos-marker", "may"},
	{"declared-zstd-but-identity", "must"},
	{"declared-br", "must"},
	{"declared-gzip-but-zstd", "must"},
	{"zstd-undeclared", "must"},
	{"schema-renamed-field", "must"},
	{"schema-other-type", "must"},
	{"schema-nullability", "must"},
	{"schema-field-metadata", "must"}, // same names, types, nullability; a field-level annotation differs
	{"trailing-garbage-wire", "must"},
	{"trailing-garbage-plain", "must"},
	{"trailing-second-stream", "must"},
	{"oversize-encoded", "must"},
	{"oversize-decoded", "must"},
	// an UNCOMPRESSED body just over the decoded limit: with maxEncoded > maxDecoded it is
	// inside the encoded limit, so only the decoded-size check can refuse it
	{"oversize-decoded-identity", "must"},
	{"cursor-stripped", "must"}, // only meaningful where a cursor is required, see vfC21MustFail
	{"reencoded-gzip", "benign"},
	{"reencoded-identity", "benign"},
}

const (
	vfC21MaxEncoded = 8 << 10
	vfC21MaxDecoded = 16 << 10
)

var vfC21ZEnc, _ = zstd.NewWriter(nil, zstd.WithEncoderLevel(zstd.SpeedFastest), zstd.WithEncoderConcurrency(1))

func vfC21Gzip(b []byte) []byte {
	var buf bytes.Buffer
	w := gzip.NewWriter(&buf)
	w.Write(b)
	w.Close()
	return buf.Bytes()
}

// vfC21Rewrite re-frames a plain IPC body: every batch is passed through edit,
// which may change the schema / columns / metadata.
func vfC21Rewrite(plain []byte, schemaOf func(*arrow.Schema) *arrow.Schema, edit func(rec arrow.RecordBatch, keys, vals []string, ns *arrow.Schema) arrow.RecordBatch) ([]byte, error) {
	rd, err := ipc.NewReader(bytes.NewReader(plain))
	if err != nil {
		return nil, err
	}
	defer rd.Release()
	ns := schemaOf(rd.Schema())
	var buf bytes.Buffer
	w := ipc.NewWriter(&buf, ipc.WithSchema(ns))
	for rd.Next() {
		rec := rd.RecordBatch()
		var keys, vals []string
		if bwm, ok := rec.(arrow.RecordBatchWithMetadata); ok {
			keys = append(keys, bwm.Metadata().Keys()...)
			vals = append(vals, bwm.Metadata().Values()...)
		}
		out := edit(rec, keys, vals, ns)
		if err := w.Write(out); err != nil {
			return nil, err
		}
	}
	if err := w.Close(); err != nil {
		return nil, err
	}
	return buf.Bytes(), nil
}

func vfC21SameCols(rec arrow.RecordBatch, keys, vals []string, ns *arrow.Schema) arrow.RecordBatch {
	return array.NewRecordBatchWithMetadata(ns, rec.Columns(), rec.NumRows(), arrow.NewMetadata(keys, vals))
}

func vfC21RenameSchema(s *arrow.Schema, f func(arrow.Field) arrow.Field) *arrow.Schema {
	fs := make([]arrow.Field, s.NumFields())
	for i, fl := range s.Fields() {
		fs[i] = f(fl)
	}
	md := s.Metadata()
	return arrow.NewSchema(fs, &md)
}

// vfC21BigStream is a valid stream of the given schema-compatible shape that is
// larger than a limit; it keeps the metadata of the last batch of the original
// (so it even carries a valid cursor).
func vfC21BigStream(plain []byte, rows int) []byte {
	out, err := vfC21Rewrite(plain, func(s *arrow.Schema) *arrow.Schema { return s },
		func(rec arrow.RecordBatch, keys, vals []string, ns *arrow.Schema) arrow.RecordBatch {
			if ns.NumFields() != 1 || ns.Field(0).Type.ID() != arrow.INT64 {
				return vfC21SameCols(rec, keys, vals, ns)
			}
			b := array.NewInt64Builder(vfMem)
			defer b.Release()
			for i := 0; i < rows; i++ {
				b.Append(0)
			}
			arr := b.NewArray()
			defer arr.Release()
			return array.NewRecordBatchWithMetadata(ns, []arrow.Array{arr}, int64(rows), arrow.NewMetadata(keys, vals))
		})
	if err != nil {
		return bytes.Repeat([]byte{0}, rows*8)
	}
	if len(out) < rows*8 { // the response had no batch to inflate: pad with a second big stream
		out = append(out, vfStreamBytes(vfOutSchema, vfI64Batch("v", make([]int64, rows)...))...)
	}
	return out
}

// vfC21FlipRegion locates, in an undamaged plain IPC body, a byte range in which a
// flipped byte cannot change any length field: the characters of the cursor
// token ("cursor"), of the call token ("call"), or the first non-empty message
// body, i.e. the column buffers ("body"). Everything else is Arrow framing /
// flatbuffer structure: arrow-go trusts the lengths it finds there and
// allocates them before reading (observed with one flipped byte in a 1.2 KB
// response: "runtime: out of memory: cannot allocate 34363932672-byte block"
// from ipc.(*messageReader).Message, and a 376 GB makeslice in
// ipc.fieldFromFB) - a fatal error, not a panic, which would take the explorer
// down with it. Framing bytes are therefore not in the flip alphabet; see
// notes/C21.md.
func vfC21FlipRegion(p []byte, kind string) (rg [2]int, ok bool) {
	defer func() {
		if recover() != nil {
			ok = false
		}
	}()
	if kind == "cursor" || kind == "call" {
		key := MetaStreamState
		if kind == "call" {
			key = MetaCallState
		}
		sts, _, err := vfParseStreams(p)
		if err != nil {
			return rg, false
		}
		for _, st := range sts {
			for _, b := range st.Batches {
				if v, has := b.M(key); has && v != "" {
					if i := bytes.Index(p, []byte(v)); i >= 0 {
						return [2]int{i, i + len(v)}, true
					}
				}
			}
		}
		return rg, false
	}
	le32 := func(b []byte) uint32 { return uint32(b[0]) | uint32(b[1])<<8 | uint32(b[2])<<16 | uint32(b[3])<<24 }
	off := 0
	for len(p)-off >= 8 {
		v := le32(p[off:])
		off += 4
		if v == 0xFFFFFFFF {
			v = le32(p[off:])
			off += 4
		}
		metaLen := int(int32(v))
		if metaLen <= 0 || metaLen > len(p)-off {
			return rg, false
		}
		meta := p[off : off+metaLen]
		off += metaLen
		pos := int(le32(meta)) // flatbuffers: Message.bodyLength is vtable slot 10
		vt := pos - int(int32(le32(meta[pos:])))
		vtSize := int(meta[vt]) | int(meta[vt+1])<<8
		bodyLen := 0
		if 10 < vtSize {
			if o := int(meta[vt+10]) | int(meta[vt+11])<<8; o != 0 {
				bodyLen = int(le32(meta[pos+o:]))
			}
		}
		if bodyLen < 0 || bodyLen > len(p)-off {
			return rg, false
		}
		if bodyLen > 0 {
			return [2]int{off, off + bodyLen}, true
		}
	}
	return rg, false
}

// ---------------------------------------------------------------------------
// the transport

type vfC21Req struct {
	path    string
	cursor  string
	cancel  bool
	fault   string
	reached bool   // the server handler ran
	plain   []byte // decoded body of the server's own (undamaged) response
	status  int
	note    string
}

type vfC21Flip = func(wire, plain []byte, compressed bool) (pos int, mask byte)

type vfC21RT struct {
	maxEnc, maxDec int64  // the limits the client under test was built with
	cancel         func() // cancels the context the harness passed to the client call in flight
	h              http.Handler
	reqs           []*vfC21Req
	// pick chooses the fault for response k; wire is the server's encoded body
	// (nil when asked before the server ran).
	pick func(k int) (fault string, flipPos func(wire, plain []byte, compressed bool) (pos int, mask byte))
}

func (rt *vfC21RT) RoundTrip(req *http.Request) (*http.Response, error) {
	var body []byte
	if req.Body != nil {
		body, _ = io.ReadAll(req.Body)
		req.Body.Close()
	}
	k := len(rt.reqs)
	r := &vfC21Req{path: req.URL.Path}
	if sts, _, err := vfParseStreams(body); err == nil {
		for _, st := range sts {
			for _, b := range st.Batches {
				if v, ok := b.M(MetaStreamState); ok {
					r.cursor = v
				}
				if _, ok := b.M(MetaCancel); ok {
					r.cancel = true
				}
			}
		}
	}
	rt.reqs = append(rt.reqs, r)
	fault, flip := rt.pick(k)
	r.fault = fault
	if fault == "drop-before-server" {
		return nil, errors.New("connection reset by peer (request never left)")
	}
	sreq := httptest.NewRequest(req.Method, req.URL.String(), bytes.NewReader(body))
	sreq.Header = req.Header.Clone()
	rec := httptest.NewRecorder()
	rt.h.ServeHTTP(rec, sreq)
	r.reached = true
	r.status = rec.Code
	wire := append([]byte{}, rec.Body.Bytes()...)
	hdr := rec.Header().Clone()
	enc := strings.TrimSpace(hdr.Get(contentEncodingHeader))
	if enc == "" {
		enc = strings.TrimSpace(hdr.Get(customContentEncodingHeader))
	}
	plain := wire
	if enc != "" && !strings.EqualFold(enc, identityEncoding) {
		if d, err := DecodeContentEncoding(wire, enc, 64<<20); err == nil {
			plain = d
		}
	}
	r.plain = plain
	status := rec.Code

	setEnc := func(e string) {
		hdr.Del(contentEncodingHeader)
		hdr.Del(customContentEncodingHeader)
		if e != "" {
			hdr.Set(contentEncodingHeader, e)
		}
	}
	out := wire
	switch fault {
	case "ok":
	case "drop-after-server":
		return nil, errors.New("connection reset by peer (response lost)")
	case "ctx-cancelled-after-server":
		if rt.cancel != nil {
			rt.cancel()
		}
		if err := req.Context().Err(); err != nil {
			return nil, err
		}
		return nil, context.Canceled
	case "status-500":
		status, out = 500, []byte("internal proxy error")
		setEnc("")
		hdr.Set("Content-Type", "text/plain")
	case "status-404":
		status, out = 404, []byte("no such route")
		setEnc("")
		hdr.Set("Content-Type", "text/plain")
	case "empty-body":
		out = nil
	case "truncate-half":
		out = wire[:len(wire)/2]
	case "truncate-last-byte":
		if len(wire) > 0 {
			out = wire[:len(wire)-1]
		}
	case "truncate-eos-marker":
		out = plain
		if len(plain) >= 8 {
			out = plain[:len(plain)-8]
		}
		setEnc("")
	case "declared-zstd-but-identity":
		out = plain
		setEnc("zstd")
	case "declared-br":
		out = plain
		setEnc("br")
	case "declared-gzip-but-zstd":
		out = vfC21ZEnc.EncodeAll(plain, nil)
		setEnc("gzip")
	case "zstd-undeclared":
		out = vfC21ZEnc.EncodeAll(plain, nil)
		setEnc("")
	case "reencoded-gzip":
		out = vfC21Gzip(plain)
		setEnc("gzip")
	case "reencoded-identity":
		out = plain
		setEnc("")
	case "schema-renamed-field", "schema-other-type", "schema-nullability", "schema-field-metadata":
		rew, err := vfC21Rewrite(plain, func(s *arrow.Schema) *arrow.Schema {
			return vfC21RenameSchema(s, func(f arrow.Field) arrow.Field {
				switch fault {
				case "schema-renamed-field":
					f.Name = f.Name + "_x"
				case "schema-nullability":
					f.Nullable = !f.Nullable
				case "schema-field-metadata":
					f.Metadata = arrow.NewMetadata([]string{"unit"}, []string{"us"})
				case "schema-other-type":
					f.Type = arrow.PrimitiveTypes.Float64
				}
				return f
			})
		}, func(rec arrow.RecordBatch, keys, vals []string, ns *arrow.Schema) arrow.RecordBatch {
			if fault != "schema-other-type" {
				return vfC21SameCols(rec, keys, vals, ns)
			}
			cols := make([]arrow.Array, ns.NumFields())
			for i := range cols {
				b := array.NewFloat64Builder(vfMem)
				for j := int64(0); j < rec.NumRows(); j++ {
					b.Append(1.5)
				}
				cols[i] = b.NewArray()
				b.Release()
			}
			return array.NewRecordBatchWithMetadata(ns, cols, rec.NumRows(), arrow.NewMetadata(keys, vals))
		})
		if err == nil {
			out = rew
		} else {
			out = []byte("unrewritable")
		}
		setEnc("")
	case "trailing-garbage-wire":
		out = append(append([]byte{}, wire...), 'X', 'X')
	case "trailing-garbage-plain":
		out = append(append([]byte{}, plain...), 'X', 'X')
		setEnc("")
	case "trailing-second-stream":
		out = append(append([]byte{}, plain...), vfStreamBytes(vfOutSchema, vfI64Batch("v", 42))...)
		setEnc("")
	case "oversize-encoded":
		out = vfC21BigStream(plain, int(rt.maxEnc)/8+64) // > maxEncoded on the wire, identity
		setEnc("")
	case "oversize-decoded":
		big := vfC21BigStream(plain, int(rt.maxDec)/8+64) // decodes to > maxDecoded, tiny on the wire
		out = vfC21ZEnc.EncodeAll(big, nil)
		setEnc("zstd")
	case "oversize-decoded-identity":
		out = vfC21BigStream(plain, int(rt.maxDec)/8+64) // > maxDecoded, sent without any Content-Encoding
		setEnc("")
	case "cursor-stripped":
		rew, err := vfC21Rewrite(plain, func(s *arrow.Schema) *arrow.Schema { return s },
			func(rec arrow.RecordBatch, keys, vals []string, ns *arrow.Schema) arrow.RecordBatch {
				var k2, v2 []string
				for i, k := range keys {
					if k != MetaStreamState {
						k2 = append(k2, k)
						v2 = append(v2, vals[i])
					}
				}
				return array.NewRecordBatchWithMetadata(ns, rec.Columns(), rec.NumRows(), arrow.NewMetadata(k2, v2))
			})
		if err == nil {
			out = rew
		}
		setEnc("")
	case "flip":
		if len(wire) > 0 {
			compressed := enc != "" && !strings.EqualFold(enc, identityEncoding)
			pos, mask := flip(wire, plain, compressed)
			if pos < 0 {
				r.fault = "ok"
				break
			}
			out = append([]byte{}, wire...)
			out[pos] ^= mask
			r.fault = fmt.Sprintf("flip@%d/%d^%02x", pos, len(wire), mask)
			deliver := true
			if compressed {
				// compressed wire: deliver when the damage is caught by the decoder (or is a no-op);
				// anything that decodes to different bytes may be corrupt Arrow framing
				d, derr := DecodeContentEncoding(out, enc, 64<<20)
				deliver = derr != nil || bytes.Equal(d, plain)
			}
			if !deliver {
				r.fault = "flip-not-delivered"
				r.note = fmt.Sprintf("flip@%d^%02x decodes to different bytes", pos, mask)
				return nil, errors.New("harness: response withheld (corrupt Arrow framing can abort the process)")
			}
		}
	}
	resp := &http.Response{Proto: "HTTP/1.1", ProtoMajor: 1, ProtoMinor: 1, Request: req, Header: hdr,
		StatusCode: status, Status: fmt.Sprintf("%d %s", status, http.StatusText(status)),
		ContentLength: int64(len(out)), Body: io.NopCloser(bytes.NewReader(out))}
	return resp, nil
}

// ---------------------------------------------------------------------------
// the wire: a real net/http Transport over in-memory connections
//
// The RoundTripper above replaces net/http's Transport, so whatever the
// Transport itself does with a request (connection reuse, its own replay of
// "idempotent" requests on a connection that died) is invisible to it. This
// second environment keeps the real http.Transport and gives it net.Pipe
// connections; the other end of each pipe is a tiny HTTP/1.1 server loop that
// reads requests off the connection, logs them (this log IS the wire: it is what
// the server side receives), lets the real HttpServer answer, and applies
// connection-level faults. No sockets, no clock.

var vfC21WireFaults = []string{"ok", "conn-closed-after-server", "conn-closed-before-server", "conn-closed-mid-response", "respond-then-close-conn"}

type vfC21Wire struct {
	mu        sync.Mutex
	h         http.Handler
	log       *vfC21RT // requests are appended to log.reqs (the oracle reads them there)
	plan      []string // fault for the k-th request that arrives on the wire
	closeEach bool     // answer every request with Connection: close (no connection reuse)
	dials     int
	wg        sync.WaitGroup
}

func (wr *vfC21Wire) dial(ctx context.Context, network, addr string) (net.Conn, error) {
	c, srv := net.Pipe()
	wr.mu.Lock()
	wr.dials++
	wr.mu.Unlock()
	wr.wg.Add(1)
	go wr.serve(srv)
	return c, nil
}

func (wr *vfC21Wire) serve(conn net.Conn) {
	defer wr.wg.Done()
	defer conn.Close()
	br := bufio.NewReader(conn)
	for {
		req, err := http.ReadRequest(br)
		if err != nil {
			return
		}
		body, _ := io.ReadAll(req.Body)
		req.Body.Close()
		r := &vfC21Req{path: req.URL.Path}
		if sts, _, perr := vfParseStreams(body); perr == nil {
			for _, st := range sts {
				for _, b := range st.Batches {
					if v, ok := b.M(MetaStreamState); ok {
						r.cursor = v
					}
				}
			}
		}
		wr.mu.Lock()
		k := len(wr.log.reqs)
		fault := "ok"
		if k < len(wr.plan) {
			fault = wr.plan[k]
		}
		r.fault = fault
		wr.log.reqs = append(wr.log.reqs, r)
		wr.mu.Unlock()
		if fault == "conn-closed-before-server" {
			return
		}
		sreq := httptest.NewRequest(req.Method, "http://srv.test"+req.URL.RequestURI(), bytes.NewReader(body))
		sreq.Header = req.Header.Clone()
		rec := httptest.NewRecorder()
		wr.h.ServeHTTP(rec, sreq)
		wire := rec.Body.Bytes()
		plain := wire
		enc := strings.TrimSpace(rec.Header().Get(contentEncodingHeader))
		if enc == "" {
			enc = strings.TrimSpace(rec.Header().Get(customContentEncodingHeader))
		}
		if enc != "" && !strings.EqualFold(enc, identityEncoding) {
			if d, derr := DecodeContentEncoding(wire, enc, 64<<20); derr == nil {
				plain = d
			}
		}
		wr.mu.Lock()
		r.reached, r.status, r.plain = true, rec.Code, plain
		wr.mu.Unlock()
		if fault == "conn-closed-after-server" {
			return
		}
		hdr := rec.Header().Clone()
		closing := wr.closeEach || fault == "respond-then-close-conn"
		if closing {
			hdr.Set("Connection", "close")
		}
		resp := &http.Response{Proto: "HTTP/1.1", ProtoMajor: 1, ProtoMinor: 1, Header: hdr, Close: closing,
			StatusCode: rec.Code, Status: fmt.Sprintf("%d %s", rec.Code, http.StatusText(rec.Code)),
			ContentLength: int64(len(wire)), Body: io.NopCloser(bytes.NewReader(wire))}
		var out bytes.Buffer
		resp.Write(&out)
		if fault == "conn-closed-mid-response" {
			conn.Write(out.Bytes()[:out.Len()-len(wire)/2-1])
			return
		}
		if _, err := conn.Write(out.Bytes()); err != nil || closing {
			return
		}
	}
}

// vfC21NewWireWorld is vfC21NewWorld with the real http.Transport over the wire above.
func vfC21NewWireWorld(compress bool, turns []VfTurn, plan []string, closeEach bool) (*vfC21World, func()) {
	// the server objects come from the ordinary constructor; only the client's transport differs
	w := vfC21NewWorld(nil, compress, turns, func(int) (string, vfC21Flip) { return "ok", nil })
	wr := &vfC21Wire{h: w.rt.h, log: w.rt, plan: plan, closeEach: closeEach}
	tr := &http.Transport{DialContext: wr.dial, DisableCompression: true, MaxIdleConnsPerHost: 4}
	c, err := NewHttpClient("http://srv.test",
		WithClientHTTPClient(&http.Client{Transport: tr}),
		WithClientResponseLimits(vfC21MaxEncoded, vfC21MaxDecoded),
		WithClientLogHandler(func(m LogMessage) { w.logs = append(w.logs, string(m.Level)+":"+m.Message) }))
	if err != nil {
		panic(err)
	}
	w.client = c
	return w, func() {
		tr.CloseIdleConnections()
		wr.wg.Wait()
	}
}

// ---------------------------------------------------------------------------
// helpers for the oracle

// vfC21Emitted returns the batches of a server response that are neither log
// nor error batches (for an exchange turn: exactly the one output batch).
func vfC21Emitted(plain []byte) (data []vfBatch, exc *vfErrInfo, perr error) {
	sts, _, err := vfParseStreams(plain)
	if err != nil {
		return nil, nil, err
	}
	for _, st := range sts {
		for _, b := range st.Batches {
			switch b.Kind {
			case "log":
			case "error":
				e := vfErrOf(b)
				exc = &e
			default:
				data = append(data, b)
			}
		}
	}
	return data, exc, nil
}

func vfC21MetaMinusTokens(b vfBatch) string {
	return b.MetaString(MetaStreamState, MetaCallState)
}

func vfC21ClientMeta(m map[string]string) string {
	var parts []string
	for k, v := range m {
		parts = append(parts, k+"="+v)
	}
	sort.Strings(parts)
	return strings.Join(parts, "|")
}

func vfC21JSON(b arrow.RecordBatch) string {
	js, err := b.MarshalJSON()
	if err != nil {
		return "<json-error>"
	}
	return strings.TrimSpace(string(js))
}

func vfC21ErrKind(err error) string {
	if err == nil {
		return "ok"
	}
	var re *RpcError
	if errors.As(err, &re) {
		return "RpcError:" + re.Type
	}
	var he *HTTPStatusError
	if errors.As(err, &he) {
		return fmt.Sprintf("HTTPStatusError:%d", he.StatusCode)
	}
	return "error"
}

// vfC21MustFail says whether the statement obliges the client to reject a
// response damaged by this fault at this kind of response.
func vfC21MustFail(f vfC21Fault, respKind string) bool {
	if f.class != "must" {
		return false
	}
	if f.name == "cursor-stripped" {
		// the statement names a missing cursor for exchange turns (and the exchange
		// init); a producer response without a cursor simply ends the stream and a
		// unary response never has one.
		return respKind == "exchange-init" || respKind == "exchange-turn"
	}
	return true
}

func vfC21FaultByName(n string) vfC21Fault {
	for _, f := range vfC21Faults {
		if f.name == n {
			return f
		}
	}
	if n == "flip-not-delivered" || strings.HasPrefix(n, "conn-closed-") {
		return vfC21Fault{n, "must"}
	}
	if n == "respond-then-close-conn" {
		return vfC21Fault{n, "benign"}
	}
	if strings.HasPrefix(n, "flip") {
		return vfC21Fault{n, "may"}
	}
	return vfC21Fault{n, "ok"}
}

// vfC21FaultGroup coarsens a fault name for the cursor-replay signature.
func vfC21FaultGroup(n string) string {
	switch {
	case n == "ctx-cancelled-after-server":
		return "context-cancelled"
	case strings.HasPrefix(n, "drop-"), n == "flip-not-delivered", strings.HasPrefix(n, "conn-closed-"):
		return "lost-response"
	case strings.HasPrefix(n, "status-"):
		return "non-2xx"
	case strings.HasPrefix(n, "flip"), strings.HasPrefix(n, "truncate-"), strings.HasPrefix(n, "trailing-"), n == "empty-body":
		return "malformed-body"
	case strings.HasPrefix(n, "declared-"), n == "zstd-undeclared":
		return "wrong-encoding"
	case strings.HasPrefix(n, "schema-"):
		return "schema-drift"
	case strings.HasPrefix(n, "oversize-"):
		return "over-limit-body"
	case n == "cursor-stripped":
		return "missing-cursor"
	}
	return "undamaged-response" // ok / correctly re-encoded: the turn itself ended in a server exception
}

func vfC21SigFault(n string) string {
	if n == "flip-not-delivered" {
		return n
	}
	if strings.HasPrefix(n, "flip") {
		return "flip"
	}
	return n
}

type vfC21World struct {
	rt     *vfC21RT
	client *HttpClient
	logs   []string
}

// ctx returns a fresh cancellable context for ONE client call and hands its
// cancel function to the transport (for the ctx-cancelled fault). Every call gets
// its own context, so a later call is never refused merely because an earlier
// call's context was cancelled.
func (w *vfC21World) ctx() context.Context {
	if w.rt.cancel != nil {
		w.rt.cancel()
	}
	c, cancel := context.WithCancel(context.Background())
	w.rt.cancel = cancel
	return c
}

var vfC21TurnKinds = []string{"emit", "emit-meta-log", "fail-rpc", "emit-zero-rows", "fail-plain"}

func vfC21Turn(kind string) VfTurn {
	switch kind {
	case "emit":
		return VfTurn{Emit: 1, Rows: 2}
	case "emit-meta-log":
		return VfTurn{Emit: 1, Rows: 1, Meta: []string{"app", "1", "vgi.cache.hint", "x"}, Logs: []string{"INFO:turn log"}}
	case "fail-rpc":
		return VfTurn{Fail: "rpc:ValueError"}
	case "fail-plain":
		return VfTurn{Fail: "plain"}
	case "emit-zero-rows":
		return VfTurn{Emit: 1, Rows: 0}
	}
	return VfTurn{Emit: 1, Rows: 1}
}

func vfC21NewWorld(x *venum.X, compress bool, turns []VfTurn, pick func(k int) (string, vfC21Flip), limits ...int64) *vfC21World {
	maxEnc, maxDec := int64(vfC21MaxEncoded), int64(vfC21MaxDecoded)
	if len(limits) == 2 {
		maxEnc, maxDec = limits[0], limits[1]
	}
	vfResetEvents()
	s := NewServer()
	Unary(s, "u", func(ctx context.Context, cc *CallContext, p VfXParams) (int64, error) {
		if p.X < 0 {
			return 0, &RpcError{Type: "ValueError", Message: "negative"}
		}
		return p.X * 2, nil
	})
	Exchange(s, "exch", vfOutSchema, vfInSchema, func(ctx context.Context, cc *CallContext, p VfXParams) (*StreamResult, error) {
		if p.X < 0 {
			return nil, &RpcError{Type: "ValueError", Message: "negative"}
		}
		return &StreamResult{OutputSchema: vfOutSchema, InputSchema: vfInSchema, State: &VfExchanger{S: VfScript{Turns: turns}}}, nil
	})
	Producer(s, "prod", vfOutSchema, func(ctx context.Context, cc *CallContext, p VfXParams) (*StreamResult, error) {
		if p.X < 0 {
			return nil, &RpcError{Type: "ValueError", Message: "negative"}
		}
		return &StreamResult{OutputSchema: vfOutSchema, State: &VfProducer{S: VfScript{Turns: turns}}}, nil
	})
	h := NewHttpServer(s)
	h.SetProducerBatchLimit(1)
	if !compress {
		h.SetCompressionLevel(0)
	}
	w := &vfC21World{}
	w.rt = &vfC21RT{h: h, pick: pick, maxEnc: maxEnc, maxDec: maxDec}
	c, err := NewHttpClient("http://srv.test",
		WithClientHTTPClient(&http.Client{Transport: w.rt}),
		WithClientResponseLimits(maxEnc, maxDec),
		WithClientLogHandler(func(m LogMessage) { w.logs = append(w.logs, string(m.Level)+":"+m.Message) }))
	if err != nil {
		panic(err)
	}
	w.client = c
	return w
}

// vfC21Call runs f, converting a panic that escapes the client into an error
// value plus a flag.
func vfC21Call(f func() error) (err error, panicked any) {
	defer func() {
		if r := recover(); r != nil {
			panicked = r
			err = fmt.Errorf("panic: %v", r)
		}
	}()
	return f(), nil
}

// vfC21CheckBatch compares one batch the client returned with the batch the
// server put on the wire.
func vfC21CheckBatch(x *venum.X, cls string, got *ClientBatch, want vfBatch) {
	if js := vfC21JSON(got.Batch); js != want.JSON || got.Batch.NumRows() != want.Rows || vfSchemaString(got.Batch.Schema()) != want.Schema {
		vfC21Failf(x, cls+":data-differs", "client returned %s (%d rows, %s), server sent %s (%d rows, %s)", js, got.Batch.NumRows(), vfSchemaString(got.Batch.Schema()), want.JSON, want.Rows, want.Schema)
	}
	for _, k := range []string{MetaStreamState, MetaCallState} {
		if _, ok := got.Metadata[k]; ok {
			vfC21Failf(x, cls+":token-in-metadata", "returned metadata still carries %s", k)
		}
	}
	if gm, wm := vfC21ClientMeta(got.Metadata), vfC21MetaMinusTokens(want); gm != wm {
		vfC21Failf(x, cls+":metadata-differs", "client metadata [%s], server batch metadata minus tokens [%s]", gm, wm)
	}
}

// vfC21Exchange drives one exchange history and applies the oracle.
func vfC21Exchange(x *venum.X, w *vfC21World, kinds []string, decl ClientStreamSchema, declOK bool, initX int64) {
	rt := w.rt
	var trace []string
	var stream *HttpClientStream
	err, pan := vfC21Call(func() error {
		var e error
		stream, e = w.client.OpenExchange(w.ctx(), "exch", vfI64Batch("x", initX), decl)
		return e
	})
	initFault := "ok"
	if len(rt.reqs) > 0 {
		initFault = rt.reqs[0].fault
	}
	trace = append(trace, "open="+vfC21ErrKind(err))
	if pan != nil {
		if strings.HasPrefix(initFault, "flip") {
			trace = append(trace, "panic") // a corrupt flatbuffer makes arrow-go panic; the statement is silent on that
		} else {
			vfC21Failf(x, "C21:exchange:init:"+vfC21SigFault(initFault)+":client-panic", "OpenExchange panicked: %v", pan)
		}
	}
	fi := vfC21FaultByName(initFault)
	switch {
	case err == nil && vfC21MustFail(fi, "exchange-init"):
		vfC21Failf(x, "C21:exchange:init:"+initFault+":accepted", "init response damaged by %s but OpenExchange succeeded", initFault)
	case err == nil && !declOK:
		vfC21Failf(x, "C21:exchange:init:declaration-mismatch-accepted", "declared output schema %s differs from the server's %s but OpenExchange succeeded", decl.Output, vfOutSchema)
	case err == nil && initX < 0:
		vfC21Failf(x, "C21:exchange:init:server-exception-swallowed", "the init handler raised ValueError but OpenExchange succeeded")
	case err != nil && initX < 0 && fi.class == "ok" && declOK:
		var re *RpcError
		if !errors.As(err, &re) || re.Type != "ValueError" {
			vfC21Failf(x, "C21:exchange:init:server-exception-not-typed", "init handler raised ValueError, client returned %T %v", err, err)
		}
	case err != nil && fi.class == "ok" && declOK && initX >= 0:
		vfC21Failf(x, "C21:exchange:init:undamaged-init-refused", "OpenExchange failed on an undamaged response: %v", err)
	}
	if err != nil || stream == nil {
		x.Outcome("%s", strings.Join(trace, ","))
		return
	}
	dead := false // an ambiguous turn happened: everything after must be refused locally
	serverDone := false
	for i := range kinds {
		before := len(rt.reqs)
		var got *ClientBatch
		err, pan := vfC21Call(func() error {
			var e error
			got, e = stream.Exchange(w.ctx(), vfI64Batch("x", int64(i+1)))
			return e
		})
		sent := len(rt.reqs) - before
		fault := "none-sent"
		var rq *vfC21Req
		if sent > 0 {
			rq = rt.reqs[before]
			fault = rq.fault
		}
		f := vfC21FaultByName(fault)
		cls := fmt.Sprintf("C21:exchange:turn:%s", vfC21SigFault(fault))
		trace = append(trace, fmt.Sprintf("t%d[%s]=%s", i+1, vfC21SigFault(fault), vfC21ErrKind(err)))
		if pan != nil {
			if strings.HasPrefix(fault, "flip") {
				trace = append(trace, "panic")
			} else {
				vfC21Failf(x, cls+":client-panic", "Exchange panicked: %v", pan)
			}
		}
		if sent > 1 {
			vfC21Failf(x, cls+":more-than-one-request", "one Exchange call produced %d requests", sent)
		}
		if dead {
			if err == nil {
				vfC21Failf(x, "C21:exchange:after-ambiguous-turn:turn-accepted", "turn %d succeeded after an ambiguous turn (trace %v)", i+1, trace)
			}
			if sent > 0 {
				vfC21Failf(x, "C21:exchange:after-ambiguous-turn:request-sent", "turn %d after an ambiguous turn still sent a request (cursor %.12q…); trace %v", i+1, rq.cursor, trace)
			}
			continue
		}
		if sent == 0 {
			// refused locally although nothing ambiguous happened: only legitimate after a server exception
			if !serverDone {
				vfC21Failf(x, cls+":refused-without-cause", "turn %d refused locally: %v (trace %v)", i+1, err, trace)
			}
			continue
		}
		var want []vfBatch
		var exc *vfErrInfo
		if rq.reached {
			want, exc, _ = vfC21Emitted(rq.plain)
		}
		if err != nil {
			if f.class == "ok" {
				if exc == nil {
					vfC21Failf(x, cls+":undamaged-turn-refused", "turn %d: undamaged response (no exception in it) but Exchange failed: %v", i+1, err)
				} else {
					var re *RpcError
					if rq.status >= 200 && rq.status < 300 {
						if !errors.As(err, &re) || re.Type != exc.Type || !strings.Contains(re.Message, exc.LogMsg) {
							vfC21Failf(x, "C21:exchange:turn:server-exception-not-typed", "server raised %s(%q) in a %d response, client returned %T %v", exc.Type, exc.Message, rq.status, err, err)
						}
					} else {
						// the statement files non-2xx under "ambiguous": any error will do (the client
						// reports *HTTPStatusError and does not decode the envelope inside)
						trace = append(trace, fmt.Sprintf("exception-in-%d", rq.status))
					}
					serverDone = true
				}
			}
			if f.class != "ok" {
				dead = true
			} else if exc != nil {
				serverDone = true
			}
			continue
		}
		// the call succeeded
		if vfC21MustFail(f, "exchange-turn") {
			vfC21Failf(x, cls+":accepted", "turn %d: response damaged by %s but Exchange returned a batch %s", i+1, fault, vfC21JSON(got.Batch))
			continue
		}
		if exc != nil {
			vfC21Failf(x, "C21:exchange:turn:server-exception-swallowed", "turn %d: the server raised %s but Exchange returned a batch", i+1, exc.Type)
			continue
		}
		if len(want) != 1 {
			vfC21Failf(x, "C21:harness:exchange-response-shape", "server response for turn %d has %d output batches", i+1, len(want))
			continue
		}
		if f.class == "may" && (vfC21JSON(got.Batch) != want[0].JSON || vfC21ClientMeta(got.Metadata) != vfC21MetaMinusTokens(want[0])) {
			// undetectable damage (a flipped value byte): nothing the client could know. Not a failure.
			trace = append(trace, "silently-altered")
			continue
		}
		vfC21CheckBatch(x, cls, got, want[0])
	}
	// cancel + close at the end must not resurrect an old cursor either
	before := len(rt.reqs)
	_, pan = vfC21Call(func() error { return stream.Cancel(w.ctx()) })
	if pan != nil {
		vfC21Failf(x, "C21:exchange:cancel:client-panic", "Cancel panicked: %v", pan)
	}
	if dead && len(rt.reqs) != before {
		vfC21Failf(x, "C21:exchange:after-ambiguous-turn:cancel-sent-request", "Cancel after an ambiguous turn sent a request")
	}
	stream.Close()
	// the headline invariant: no cursor value reaches the transport twice
	seen := map[string]int{}
	for i, r := range rt.reqs {
		if r.cursor == "" {
			continue
		}
		if j, dup := seen[r.cursor]; dup {
			vfC21Failf(x, "C21:exchange:cursor-replayed:after-"+vfC21FaultGroup(rt.reqs[j].fault), "request %d resends the cursor first sent by request %d (whose response fault was %s); trace %v", i, j, rt.reqs[j].fault, trace)
		}
		seen[r.cursor] = i
	}
	x.Outcome("%s logs=%d", strings.ToValidUTF8(strings.Join(trace, ","), "?"), len(w.logs))
}

func TestVerif_C21(t *testing.T) {
	venum.Begin("C21")
	defer venum.Finish(t)
	okDecl := ClientStreamSchema{Input: vfInSchema, Output: vfOutSchema}
	devFault := func(x *venum.X) func(k int) (string, vfC21Flip) {
		return func(k int) (string, vfC21Flip) {
			return vfC21Faults[x.Deviate(len(vfC21Faults), fmt.Sprintf("fault@resp%d", k))].name, nil
		}
	}

	// ---- space 1: exchange histories x response faults -----------------------------
	nTurns := 3 // a fourth turn only repeats "refused after the ambiguous turn"; it tripled the thorough cost
	nKinds := venum.QT(3, 5)
	venum.Explore(t, venum.Cfg{Name: "exchange-histories", Shardable: true, DevBound: venum.QT(1, 2)}, func(x *venum.X) {
		// the first choice point carries the first two turns so that its arity (9 / 16) keeps all
		// worker shards busy (shards deal out the alternatives of the first point)
		c := x.Choose(nKinds*nKinds, "turn1+turn2")
		kinds := []string{vfC21TurnKinds[c/nKinds], vfC21TurnKinds[c%nKinds]}
		for i := 2; i < nTurns; i++ {
			kinds = append(kinds, vfC21TurnKinds[x.Choose(nKinds, fmt.Sprintf("turn%d", i+1))])
		}
		compress := !x.Bool("server-compression-off")
		turns := make([]VfTurn, len(kinds))
		for i, k := range kinds {
			turns[i] = vfC21Turn(k)
		}
		w := vfC21NewWorld(x, compress, turns, devFault(x))
		vfC21Exchange(x, w, kinds, okDecl, true, 0)
	})

	// ---- space 2: single-byte flips in every response ----------------------------------
	// identity wire: every character of the cursor token and of the call token and every
	// byte of the column buffers; compressed wire: every byte of the zstd frame. Arities are
	// fixed (response layout varies by a byte or two between runs: gob-encoded timestamps
	// inside the tokens); an index past the end of its region means "no flip".
	masks := venum.QT([]byte{0xFF}, []byte{0x01, 0x80, 0xFF})
	flipArity := map[string]int{"cursor": 640, "call": 640, "body": 32, "wire": 1400}
	venum.Explore(t, venum.Cfg{Name: "exchange-byte-flips", Shardable: true}, func(x *venum.X) {
		resp := x.Choose(3, "flip-in-response") // init, turn 1, turn 2
		compress := !x.Bool("server-compression-off")
		target := "wire"
		if !compress {
			target = x.Pick("region", "cursor", "call", "body")
		}
		idx := x.Choose(flipArity[target], "index")
		mask := masks[x.Choose(len(masks), "mask")]
		kinds := []string{"emit-meta-log", "emit", "emit"}
		turns := []VfTurn{vfC21Turn(kinds[0]), vfC21Turn(kinds[1]), vfC21Turn(kinds[2])}
		tooLong := false
		w := vfC21NewWorld(x, compress, turns, func(k int) (string, vfC21Flip) {
			if k != resp {
				return "ok", nil
			}
			return "flip", func(wire, plain []byte, compressed bool) (int, byte) {
				if compressed {
					if len(wire) > flipArity["wire"] {
						tooLong = true
					}
					if idx >= len(wire) {
						return -1, 0
					}
					return idx, mask
				}
				rg, ok := vfC21FlipRegion(plain, target)
				if !ok {
					return -1, 0
				}
				if rg[1]-rg[0] > flipArity[target] {
					tooLong = true
				}
				if rg[0]+idx >= rg[1] {
					return -1, 0
				}
				return rg[0] + idx, mask
			}
		})
		vfC21Exchange(x, w, kinds, okDecl, true, 0)
		if tooLong {
			vfC21Failf(x, "C21:harness:flip-arity-too-small", "region %s of response %d is longer than its arity %d", target, resp, flipArity[target])
		}
	})

	// ---- space 2b: the same exchange histories over the real net/http Transport ------------
	// (connection reuse, connection-level drops; the wire log is what the server side received)
	venum.Explore(t, venum.Cfg{Name: "wire-histories", Shardable: true, DevBound: venum.QT(1, 2)}, func(x *venum.X) {
		compress := !x.Bool("server-compression-off")
		closeEach := x.Bool("connection-close-after-every-response")
		kinds := []string{"emit", "emit-meta-log", "emit"}
		if x.Bool("second-turn-raises") {
			kinds[1] = "fail-rpc"
		}
		turns := make([]VfTurn, len(kinds))
		for i, k := range kinds {
			turns[i] = vfC21Turn(k)
		}
		// one fault slot per request the history can legitimately put on the wire (init + turns);
		// anything beyond (a replay) is answered normally
		plan := make([]string, len(kinds)+1)
		for k := range plan {
			plan[k] = vfC21WireFaults[x.Deviate(len(vfC21WireFaults), fmt.Sprintf("wirefault@req%d", k))]
		}
		w, done := vfC21NewWireWorld(compress, turns, plan, closeEach)
		defer done()
		vfC21Exchange(x, w, kinds, okDecl, true, 0)
	})

	// ---- space 3: declarations that do not match the server, init exceptions ---------
	decls := []struct {
		name string
		out  *arrow.Schema
	}{
		{"exact", vfOutSchema},
		{"renamed", vfI64Schema("w")},
		{"other-type", arrow.NewSchema([]arrow.Field{{Name: "v", Type: arrow.BinaryTypes.String}}, nil)},
		{"nullable", arrow.NewSchema([]arrow.Field{{Name: "v", Type: arrow.PrimitiveTypes.Int64, Nullable: true}}, nil)},
		{"field-metadata", arrow.NewSchema([]arrow.Field{{Name: "v", Type: arrow.PrimitiveTypes.Int64, Metadata: arrow.NewMetadata([]string{"unit"}, []string{"ms"})}}, nil)},
		{"extra-field", vfI64Schema("v", "w")},
		{"no-fields", arrow.NewSchema(nil, nil)},
	}
	venum.Explore(t, venum.Cfg{Name: "declarations", Shardable: true, DevBound: 1}, func(x *venum.X) {
		d := decls[x.Choose(len(decls), "declared-output")]
		api := x.Pick("api", "exchange", "producer", "unary")
		initX := []int64{0, -1}[x.Choose(2, "init-raises")]
		compress := !x.Bool("server-compression-off")
		kinds := []string{"emit", "emit"}
		turns := []VfTurn{vfC21Turn("emit"), vfC21Turn("emit")}
		pick := devFault(x)
		if d.name != "exact" {
			// a schema fault could turn the response into the (wrong) declared schema; keep the two dimensions apart
			pick = func(int) (string, vfC21Flip) { return "ok", nil }
		}
		// both orders of the two limits: with maxEncoded < maxDecoded only the encoded check can refuse
		// a mid-sized identity body, with maxEncoded > maxDecoded only the decoded check can
		lim := [][2]int64{{vfC21MaxEncoded, vfC21MaxDecoded}, {4 * vfC21MaxEncoded, vfC21MaxDecoded}}[x.Choose(2, "limits")]
		w := vfC21NewWorld(x, compress, turns, pick, lim[0], lim[1])
		switch api {
		case "exchange":
			vfC21Exchange(x, w, kinds, ClientStreamSchema{Input: vfInSchema, Output: d.out}, d.name == "exact", initX)
		case "producer":
			var st *HttpClientStream
			err, pan := vfC21Call(func() error {
				var e error
				st, e = w.client.OpenProducer(w.ctx(), "prod", vfI64Batch("x", initX), ClientStreamSchema{Output: d.out})
				return e
			})
			fault := w.rt.reqs[0].fault
			if initX < 0 && vfC21FaultByName(fault).class == "ok" && d.name == "exact" {
				var re *RpcError
				if err == nil {
					vfC21Failf(x, "C21:producer:init:server-exception-swallowed", "the init handler raised ValueError but OpenProducer succeeded")
				} else if !errors.As(err, &re) || re.Type != "ValueError" {
					vfC21Failf(x, "C21:producer:init:server-exception-not-typed", "init handler raised ValueError, client returned %T %v", err, err)
				}
			}
			if pan != nil {
				vfC21Failf(x, "C21:producer:init:"+fault+":client-panic", "%v", pan)
			}
			if err == nil && d.name != "exact" && initX >= 0 {
				vfC21Failf(x, "C21:producer:init:declaration-mismatch-accepted", "declared %s, server sends %s, OpenProducer succeeded", d.out, vfOutSchema)
			}
			if err == nil && vfC21MustFail(vfC21FaultByName(fault), "producer-init") {
				vfC21Failf(x, "C21:producer:init:"+fault+":accepted", "init response damaged by %s but OpenProducer succeeded", fault)
			}
			if st != nil {
				st.Close()
			}
			x.Outcome("producer decl=%s fault=%s -> %s", d.name, fault, vfC21ErrKind(err))
		case "unary":
			var got *ClientBatch
			uSchema := func() *arrow.Schema {
				// the unary result schema is {result:int64}; mirror the declaration variants on it
				switch d.name {
				case "exact":
					return nil
				case "renamed":
					return vfI64Schema("resultx")
				case "other-type":
					return arrow.NewSchema([]arrow.Field{{Name: "result", Type: arrow.BinaryTypes.String}}, nil)
				case "extra-field":
					return vfI64Schema("result", "w")
				case "no-fields":
					return arrow.NewSchema(nil, nil)
				}
				return nil
			}()
			// "exact" and "nullable": learn the server's real result schema from an undamaged probe
			var real *arrow.Schema
			{
				s2 := NewServer()
				Unary(s2, "u", func(ctx context.Context, cc *CallContext, p VfXParams) (int64, error) { return p.X * 2, nil })
				out, _, _ := vfServePipe(s2, vfXReq("u", 1))
				if sts, _, e := vfParseStreams(out); e == nil && len(sts) > 0 {
					real = sts[0].Schema
				}
			}
			if real == nil {
				vfC21Failf(x, "C21:harness:unary-schema-probe", "could not learn the unary result schema")
				return
			}
			switch d.name {
			case "exact":
				uSchema = real
			case "nullable":
				uSchema = vfC21RenameSchema(real, func(f arrow.Field) arrow.Field { f.Nullable = !f.Nullable; return f })
			case "field-metadata":
				uSchema = vfC21RenameSchema(real, func(f arrow.Field) arrow.Field {
					f.Metadata = arrow.NewMetadata([]string{"unit"}, []string{"ms"})
					return f
				})
			}
			err, pan := vfC21Call(func() error {
				var e error
				xv := int64(21)
				if initX < 0 {
					xv = -1
				}
				got, e = w.client.CallUnary(w.ctx(), "u", vfI64Batch("x", xv), uSchema)
				return e
			})
			fault := w.rt.reqs[0].fault
			f := vfC21FaultByName(fault)
			if pan != nil {
				vfC21Failf(x, "C21:unary:"+fault+":client-panic", "%v", pan)
			}
			switch {
			case err == nil && d.name != "exact":
				vfC21Failf(x, "C21:unary:declaration-mismatch-accepted", "declared %s, server sends %s, CallUnary succeeded", uSchema, real)
			case err == nil && vfC21MustFail(f, "unary"):
				vfC21Failf(x, "C21:unary:"+fault+":accepted", "response damaged by %s but CallUnary returned %s", fault, vfC21JSON(got.Batch))
			case err == nil && initX < 0:
				vfC21Failf(x, "C21:unary:server-exception-swallowed", "handler raised ValueError but CallUnary succeeded")
			case err != nil && initX < 0 && f.class == "ok" && d.name == "exact":
				var re *RpcError
				if !errors.As(err, &re) || re.Type != "ValueError" {
					vfC21Failf(x, "C21:unary:server-exception-not-typed", "handler raised ValueError, client returned %T %v", err, err)
				}
			case err != nil && f.class == "ok" && d.name == "exact":
				vfC21Failf(x, "C21:unary:undamaged-response-refused", "%v", err)
			case err == nil:
				want, _, _ := vfC21Emitted(w.rt.reqs[0].plain)
				if len(want) == 1 && f.class != "may" {
					vfC21CheckBatch(x, "C21:unary:"+fault, got, want[0])
				}
			}
			x.Outcome("unary decl=%s fault=%s raise=%v -> %s", d.name, fault, initX < 0, vfC21ErrKind(err))
		}
	})

	// ---- space 4: producer streams (explored; only "returns what the server sent" is enforced)
	venum.Explore(t, venum.Cfg{Name: "producer-histories", Shardable: true, DevBound: venum.QT(1, 2)}, func(x *venum.X) {
		n := x.Choose(venum.QT(3, 4), "emits") // 0..n-1 emitting turns, then finish
		last := x.Pick("end", "finish", "fail-rpc", "fail-plain")
		compress := !x.Bool("server-compression-off")
		var turns []VfTurn
		for i := 0; i < n; i++ {
			if i%2 == 0 {
				turns = append(turns, vfC21Turn("emit"))
			} else {
				turns = append(turns, vfC21Turn("emit-meta-log"))
			}
		}
		if last == "finish" {
			turns = append(turns, VfTurn{Finish: true})
		} else {
			turns = append(turns, vfC21Turn(last))
		}
		w := vfC21NewWorld(x, compress, turns, devFault(x))
		var st *HttpClientStream
		err, pan := vfC21Call(func() error {
			var e error
			st, e = w.client.OpenProducer(w.ctx(), "prod", vfI64Batch("x", 0), ClientStreamSchema{Output: vfOutSchema})
			return e
		})
		if pan != nil {
			vfC21Failf(x, "C21:producer:init:"+w.rt.reqs[0].fault+":client-panic", "%v", pan)
		}
		var got []*ClientBatch
		var endErr error = err
		if err == nil {
			for i := 0; i < 12; i++ {
				var b *ClientBatch
				var ok bool
				e, pan := vfC21Call(func() error {
					var e2 error
					b, ok, e2 = st.Next(w.ctx())
					return e2
				})
				if pan != nil {
					vfC21Failf(x, "C21:producer:next:client-panic", "%v", pan)
				}
				if e != nil {
					endErr = e
					break
				}
				if !ok {
					break
				}
				got = append(got, b)
			}
			st.Close()
		}
		// what the server put on the wire in the responses the client received undamaged, in order
		var want []vfBatch
		var exc *vfErrInfo
		damaged, mustFail, benign := false, false, false
		for i, r := range w.rt.reqs {
			f := vfC21FaultByName(r.fault)
			kind := "producer-turn"
			if i == 0 {
				kind = "producer-init"
			}
			if f.class != "ok" && f.class != "benign" {
				damaged = true
				if vfC21MustFail(f, kind) {
					mustFail = true
				}
				break
			}
			if f.class == "benign" {
				benign = true
			}
			d, e, _ := vfC21Emitted(r.plain)
			for _, b := range d {
				if b.Rows > 0 {
					want = append(want, b)
				}
			}
			if e != nil {
				exc = e
			}
		}
		switch {
		case mustFail && endErr == nil:
			vfC21Failf(x, "C21:producer:damaged-response-accepted", "a response that had to be rejected was consumed without error; faults %v", vfC21ReqFaults(w.rt.reqs))
		case !damaged && benign && endErr != nil && exc == nil:
			// a correctly declared re-encoding was refused: not demanded by the statement
		case !damaged:
			if len(got) != len(want) {
				vfC21Failf(x, "C21:producer:batch-count", "client returned %d batches, server sent %d (end error %v)", len(got), len(want), endErr)
			} else {
				for i := range got {
					vfC21CheckBatch(x, "C21:producer", got[i], want[i])
				}
			}
			if exc != nil {
				var re *RpcError
				if !errors.As(endErr, &re) || re.Type != exc.Type {
					vfC21Failf(x, "C21:producer:server-exception-not-typed", "server raised %s, client ended with %T %v", exc.Type, endErr, endErr)
				}
			} else if endErr != nil {
				vfC21Failf(x, "C21:producer:undamaged-stream-refused", "%v", endErr)
			}
		default:
			// damaged: whatever was returned before the damage must still be a prefix of what the server sent
			for i := range got {
				if i < len(want) {
					vfC21CheckBatch(x, "C21:producer:before-damage", got[i], want[i])
				}
			}
		}
		x.Outcome("producer n=%d end=%s faults=%v got=%d -> %s", n, last, vfC21ReqFaults(w.rt.reqs), len(got), vfC21ErrKind(endErr))
	})
}

// vfC21Failf keeps raw bytes (flipped tokens echoed in error texts) out of the report.
func vfC21Failf(x *venum.X, sig, format string, args ...any) {
	x.Failf(strings.ToValidUTF8(sig, "?"), "%s", strings.ToValidUTF8(fmt.Sprintf(format, args...), "?"))
}

func vfC21ReqFaults(rs []*vfC21Req) []string {
	var out []string
	for _, r := range rs {
		out = append(out, vfC21SigFault(r.fault))
	}
	return out
}
