//go:build verif

package vgirpc

import (
	"net/http"
	"net/http/httptest"
	"testing"

	"github.com/Query-farm/vgi-rpc-go/vgirpc/internal/verif/venum"
)

// C28 — client-side parsing recovers exactly what the WWW-Authenticate header advertises.
//
// Space: every subset of the five optional fields × a value alphabet that
// contains the parameter names themselves × resource URLs; the header is the
// one a real HttpServer puts on a 401 (not a string built by the harness).
func TestVerif_C28(t *testing.T) {
	venum.Begin("C28")
	defer venum.Finish(t)

	vals := []string{"", "a", "a.b-c_~", "client_id", "client_secret", "device_code_client_id", "device_code_client_secret", "resource_metadata", "true", "use_id_token_as_bearer"}
	if !venum.Thorough() {
		vals = []string{"", "a", "a.b-c_~", "client_id", "device_code_client_id", "true"}
	}
	resources := []string{"https://api.example.com", "https://api.example.com/vgi", "https://api.example.com/vgi/", "https://api.example.com/client_id", "http://localhost:8080/a?client_id=x",
		// valid URLs whose path carries the header's own separators
		"https://api.example.com/tenants/a,b/vgi", "https://api.example.com/v1;rev=2/vgi", "https://api.example.com/a=b/c, d"}

	venum.Explore(t, venum.Cfg{Name: "www-authenticate-roundtrip", Shardable: true}, func(x *venum.X) {
		m := &OAuthResourceMetadata{
			AuthorizationServers: []string{"https://idp.example.com"},
		}
		m.Resource = resources[x.Choose(len(resources), "resource")]
		m.ClientID = vals[x.Choose(len(vals), "client_id")]
		m.ClientSecret = vals[x.Choose(len(vals), "client_secret")]
		m.DeviceCodeClientID = vals[x.Choose(len(vals), "dc_client_id")]
		m.DeviceCodeClientSecret = vals[x.Choose(len(vals), "dc_client_secret")]
		m.UseIDTokenAsBearer = x.Bool("id_token")
		vfC28RoundTrip(x, m, "")
	})

	// Sizes: Validate bounds the alphabet of the credential fields, not their length (client
	// secrets are often JWT-sized), so every field takes lengths across 0 .. 4000 and the resource
	// path is short or long; the challenge ranges from ~100 bytes to ~17 KiB.
	lens := []int{0, 1, 300, 700, 1100, 4000}
	if !venum.Thorough() {
		lens = []int{0, 1, 700, 1100}
	}
	long := func(n int, seed byte) string {
		const abc = "abcdefghijklmnopqrstuvwxyzABCDEFGHIJKLMNOPQRSTUVWXYZ0123456789-._~"
		b := make([]byte, n)
		for i := range b {
			b[i] = abc[(i*7+int(seed))%len(abc)]
		}
		return string(b)
	}
	venum.Explore(t, venum.Cfg{Name: "long-values", Shardable: true}, func(x *venum.X) {
		m := &OAuthResourceMetadata{AuthorizationServers: []string{"https://idp.example.com"}}
		m.Resource = "https://api.example.com/vgi"
		if x.Bool("long-resource") {
			m.Resource = "https://api.example.com/" + long(900, 3) + "/vgi"
		}
		m.ClientID = long(lens[x.Choose(len(lens), "client_id")], 1)
		m.ClientSecret = long(lens[x.Choose(len(lens), "client_secret")], 2)
		m.DeviceCodeClientID = long(lens[x.Choose(len(lens), "dc_client_id")], 5)
		m.DeviceCodeClientSecret = long(lens[x.Choose(len(lens), "dc_client_secret")], 11)
		m.UseIDTokenAsBearer = x.Bool("id_token")
		vfC28RoundTrip(x, m, ":long-challenge")
	})
}

// vfC28RoundTrip serves a 401 from a real HttpServer configured with m and checks that every
// Parse* helper recovers exactly what m advertises.
func vfC28RoundTrip(x *venum.X, m *OAuthResourceMetadata, suffix string) {
	{
		srv := NewServer()
		h := NewHttpServer(srv)
		h.SetAuthenticate(func(r *http.Request) (*AuthContext, error) {
			return nil, &RpcError{Type: "ValueError", Message: "no credentials"}
		})
		if err := h.SetOAuthResourceMetadata(m); err != nil {
			x.Failf("C28:valid-metadata-rejected", "SetOAuthResourceMetadata(%+v): %v", m, err)
			return
		}
		rec := httptest.NewRecorder()
		h.ServeHTTP(rec, httptest.NewRequest("POST", "/anything", nil))
		hdr := rec.Header().Get("WWW-Authenticate")
		if rec.Code != 401 || hdr == "" {
			x.Failf("C28:no-header", "status %d header %q", rec.Code, hdr)
			return
		}
		wantURL, _ := resourceMetadataURLFromResource(m.Resource)
		shape := func(present bool) string {
			if present {
				return "set"
			}
			return "absent"
		}
		check := func(field, got, want string) {
			if got != want {
				x.Failf("C28:"+field+":"+shape(want != "")+suffix, "header %.300q: parsed %s=%q, advertised %q", hdr, field, got, want)
			}
		}
		check("resource_metadata", ParseResourceMetadataURL(hdr), wantURL)
		check("client_id", ParseClientID(hdr), m.ClientID)
		check("client_secret", ParseClientSecret(hdr), m.ClientSecret)
		check("device_code_client_id", ParseDeviceCodeClientID(hdr), m.DeviceCodeClientID)
		check("device_code_client_secret", ParseDeviceCodeClientSecret(hdr), m.DeviceCodeClientSecret)
		if ParseUseIDTokenAsBearer(hdr) != m.UseIDTokenAsBearer {
			x.Failf("C28:use_id_token_as_bearer"+suffix, "header %.300q: parsed %v want %v", hdr, ParseUseIDTokenAsBearer(hdr), m.UseIDTokenAsBearer)
		}
		if len(hdr) > 400 {
			x.Outcome("len=%d id=%d sec=%d dcid=%d dcsec=%d idtok=%v", len(hdr), len(m.ClientID), len(m.ClientSecret), len(m.DeviceCodeClientID), len(m.DeviceCodeClientSecret), m.UseIDTokenAsBearer)
		} else {
			x.Outcome("%s", hdr)
		}
	}
}
