//go:build verif

package vgirpc

import (
	"context"
	"fmt"
	"sort"
	"strings"
	"testing"
	"time"

	"github.com/Query-farm/vgi-rpc-go/vgirpc/internal/verif/venum"
	"github.com/Query-farm/vgi-rpc-go/vgirpc/internal/verif/vsched"
	"github.com/apache/arrow-go/v18/arrow"
)

// C15 — token lifetime is enforced and the call cache never changes outcomes.
//
// Explicit-state search (E2) over histories of {init stream s on instance i,
// continue stream s on instance j, advance the clock} on real HttpServer
// instances sharing one token key, with the package's `time` import retargeted
// to a virtual clock. Every history runs on three worlds that differ only in
// the call-state cache size (0, 1, default); the accept/refuse verdict of every
// continuation must be the same in all three and must equal the reference
// "cursor age <= ttl and call-token age <= ttl".

const vfC15TTL = 10 * time.Second

// Odd streams are calls of a DYNAMIC method that declares its input schema at init (int64 x): that
// schema travels in the call token / call cache, and every continuation sends int32 x, so what
// the state sees depends on the resolved call. vfC15SeenIn is the input type of the latest turn.
var vfC15SeenIn string

type VfC15Dyn struct{ N int }

func (d *VfC15Dyn) Exchange(ctx context.Context, in arrow.RecordBatch, out *OutputCollector, cc *CallContext) error {
	vfC15SeenIn = in.Schema().Field(0).Type.String()
	d.N++
	return out.Emit(vfI64Batch("v", int64(d.N)))
}

func init() { RegisterStateType(&VfC15Dyn{}) }

func vfC15Method(stream int) string {
	if stream%2 == 1 {
		return "dx"
	}
	return "ex"
}

var vfC15I32Schema = arrow.NewSchema([]arrow.Field{{Name: "x", Type: arrow.PrimitiveTypes.Int32}}, nil)

type vfC15World struct {
	h      []*HttpServer
	cursor []string
	call   []string
	sid    []string // stream id each stream was given at init (as a dispatch hook sees it)
	last   string   // stream id of the latest dispatch in this world
}

// vfC15Hook records the stream id every dispatch runs under: part of a continuation's outcome is
// WHICH call it was served as.
type vfC15Hook struct{ w *vfC15World }

func (k vfC15Hook) OnDispatchStart(ctx context.Context, info DispatchInfo) (context.Context, HookToken) {
	k.w.last = info.StreamID
	return ctx, nil
}
func (k vfC15Hook) OnDispatchEnd(context.Context, HookToken, DispatchInfo, *CallStatistics, error) {}

func vfC15NewWorld(cache int, nInst, nStreams int) *vfC15World {
	w := &vfC15World{cursor: make([]string, nStreams), call: make([]string, nStreams), sid: make([]string, nStreams)}
	key := []byte("fedcba9876543210fedcba9876543210")
	for i := 0; i < nInst; i++ {
		s := NewServer()
		s.SetDispatchHook(vfC15Hook{w})
		Exchange(s, "ex", vfOutSchema, vfInSchema, func(ctx context.Context, cc *CallContext, p VfXParams) (*StreamResult, error) {
			return &StreamResult{OutputSchema: vfOutSchema, State: &VfExchanger{}}, nil
		})
		DynamicStreamWithHeader(s, "dx", VfHeader{}.ArrowSchema(), func(ctx context.Context, cc *CallContext, p VfXParams) (*StreamResult, error) {
			return &StreamResult{OutputSchema: vfOutSchema, InputSchema: vfInSchema, State: &VfC15Dyn{}}, nil
		})
		h, _ := NewHttpServerWithKey(s, key)
		h.SetTokenTTL(vfC15TTL)
		if cache >= 0 {
			h.SetCallStateCacheEntries(cache)
		}
		w.h = append(w.h, h)
	}
	return w
}

func (w *vfC15World) init(stream, inst int) bool {
	m := vfC15Method(stream)
	rec, pan := vfArrowPost(w.h[inst], "/"+m+"/init", vfXReq(m, int64(stream)))
	if pan != nil || rec.Code != 200 {
		return false
	}
	st, _, err := vfParseStreams(rec.Body.Bytes())
	if err != nil {
		return false
	}
	w.cursor[stream], w.call[stream] = vfTokens(st)
	w.sid[stream] = w.last
	return w.cursor[stream] != "" && w.sid[stream] != ""
}

// cont returns "accept", "refuse" or "other:<detail>".
func (w *vfC15World) cont(stream, inst int) string {
	return w.contWith(stream, inst, w.call[stream])
}

// contWith continues `stream` presenting callTok as the call token (the stream's own one, another
// stream's, or none at all).
func (w *vfC15World) contWith(stream, inst int, callTok string) string {
	vfC15SeenIn = ""
	rec, pan := vfArrowPost(w.h[inst], "/"+vfC15Method(stream)+"/exchange", vfExchangeBody(vfBatchJSON(vfC15I32Schema, `[{"x":1}]`), w.cursor[stream], callTok))
	if pan != nil {
		return fmt.Sprintf("other:panic %v", pan)
	}
	st, _, err := vfParseStreams(rec.Body.Bytes())
	if err != nil {
		return "other:unparseable"
	}
	cur, _ := vfTokens(st)
	nData, nErr := 0, 0
	for _, s := range st {
		nData += len(s.Data())
		nErr += len(s.Errs())
	}
	switch {
	case rec.Code == 200 && nData == 1 && cur != "" && nErr == 0:
		w.cursor[stream] = cur
		if w.last != w.sid[stream] {
			as := "an-unknown-call"
			for k, id := range w.sid {
				if id != "" && id == w.last {
					as = fmt.Sprintf("stream%d", k)
				}
			}
			return "accept-served-as-" + as
		}
		if stream%2 == 1 && vfC15SeenIn != "int64" {
			// the declared input schema (int64) was not applied to the int32 input
			return "accept-input-not-cast-state-saw-" + vfC15SeenIn
		}
		return "accept"
	case rec.Code >= 400 && rec.Code < 500 && nErr == 1:
		return "refuse"
	}
	return fmt.Sprintf("other:status=%d data=%d err=%d", rec.Code, nData, nErr)
}

func TestVerif_C15(t *testing.T) {
	venum.Begin("C15")
	defer venum.Finish(t)
	nInst := 2
	nStreams := 2
	advances := []time.Duration{time.Second, vfC15TTL - time.Second, vfC15TTL + time.Second}
	if venum.Thorough() {
		advances = append(advances, vfC15TTL/2)
	}
	type ev struct {
		kind string
		s, i int
		d    time.Duration
	}
	var evs []ev
	for s := 0; s < nStreams; s++ {
		for i := 0; i < nInst; i++ {
			evs = append(evs, ev{kind: "init", s: s, i: i})
		}
	}
	for s := 0; s < nStreams; s++ {
		for i := 0; i < nInst; i++ {
			evs = append(evs, ev{kind: "cont", s: s, i: i})
		}
	}
	for _, d := range advances {
		evs = append(evs, ev{kind: "adv", d: d})
	}
	// a client that mixes up what it holds: stream s's cursor with the other stream's call token
	// ("mix") or with no call token at all ("nocall"). Whatever the cache holds, such a request can
	// only be judged by the tokens it presents, so it must be refused in every world.
	for s := 0; s < nStreams; s++ {
		for i := 0; i < nInst; i++ {
			evs = append(evs, ev{kind: "mix", s: s, i: i}, ev{kind: "nocall", s: s, i: i})
		}
	}
	name := func(e int) string {
		v := evs[e]
		if v.kind == "adv" {
			return fmt.Sprintf("advance(%v)", v.d)
		}
		return fmt.Sprintf("%s(stream%d@inst%d)", v.kind, v.s, v.i)
	}
	caches := []int{0, 1, -1} // -1 = default size
	start := time.Unix(1_700_000_000, 0)

	venum.BFS(t, venum.BFSCfg{
		Name: "token-lifetime-histories", MaxDepth: venum.QT(6, 8), NEvents: len(evs), EventName: name,
		Step: func(x *venum.X, hist []int) (string, bool) {
			vsched.FreezeClock(start)
			defer vsched.UnfreezeClock()
			worlds := make([]*vfC15World, len(caches))
			for k, c := range caches {
				worlds[k] = vfC15NewWorld(c, nInst, nStreams)
			}
			inited := make([]bool, nStreams)
			dead := make([]bool, nStreams) // a refused or failed stream has ended
			cursorAt := make([]time.Time, nStreams)
			callAt := make([]time.Time, nStreams)
			var trail []string
			for n, e := range hist {
				v := evs[e]
				last := n == len(hist)-1
				switch v.kind {
				case "init":
					if inited[v.s] {
						if last {
							return "", false
						}
						continue
					}
					for k, w := range worlds {
						if !w.init(v.s, v.i) {
							venum.EngineError("C15 harness: init failed in world cache=%d", caches[k])
							return "", false
						}
					}
					inited[v.s] = true
					cursorAt[v.s], callAt[v.s] = vsched.Now(), vsched.Now()
				case "cont":
					if !inited[v.s] || dead[v.s] {
						if last {
							return "", false
						}
						continue
					}
					now := vsched.Now()
					want := "refuse"
					if now.Sub(cursorAt[v.s]) <= vfC15TTL && now.Sub(callAt[v.s]) <= vfC15TTL {
						want = "accept"
					}
					var got []string
					for _, w := range worlds {
						got = append(got, w.cont(v.s, v.i))
					}
					trail = append(trail, fmt.Sprintf("%s->%s", name(e), strings.Join(got, "/")))
					for k := range got {
						if strings.HasPrefix(got[k], "other:") {
							x.Failf("C15:unexpected-response:cache="+vfC15CacheName(caches[k]), "continuation answered %s (history %s)", got[k], strings.Join(trail, " "))
						}
					}
					for k := 1; k < len(got); k++ {
						if got[k] != got[0] {
							x.Failf("C15:cache-changes-outcome:cache="+vfC15CacheName(caches[k])+"-vs-disabled:"+got[0]+"-vs-"+got[k],
								"same history, cache disabled -> %s, cache %s -> %s; cursor age %v, call-token age %v, ttl %v (history %s)",
								got[0], vfC15CacheName(caches[k]), got[k], now.Sub(cursorAt[v.s]), now.Sub(callAt[v.s]), vfC15TTL, strings.Join(trail, " "))
						}
					}
					for k := range got {
						if got[k] != want && !strings.HasPrefix(got[k], "other:") {
							age := "call-token-older-than-ttl"
							if now.Sub(cursorAt[v.s]) > vfC15TTL {
								age = "cursor-older-than-ttl"
							} else if want == "accept" {
								age = "both-within-ttl"
							}
							x.Failf("C15:lifetime:"+age+":"+got[k]+":cache="+vfC15CacheName(caches[k]),
								"cursor age %v, call-token age %v, ttl %v: want %s, got %s (history %s)",
								now.Sub(cursorAt[v.s]), now.Sub(callAt[v.s]), vfC15TTL, want, got[k], strings.Join(trail, " "))
						}
					}
					if got[0] == "accept" {
						cursorAt[v.s] = now
					} else {
						dead[v.s] = true
					}
				case "mix", "nocall":
					other := (v.s + 1) % nStreams
					if !inited[v.s] || dead[v.s] || (v.kind == "mix" && !inited[other]) {
						if last {
							return "", false
						}
						continue
					}
					var got []string
					for _, w := range worlds {
						tok := ""
						if v.kind == "mix" {
							tok = w.call[other]
						}
						keep := w.cursor[v.s]
						got = append(got, w.contWith(v.s, v.i, tok))
						w.cursor[v.s] = keep // the client discards whatever this request returned
					}
					trail = append(trail, fmt.Sprintf("%s->%s", name(e), strings.Join(got, "/")))
					for k := range got {
						if strings.HasPrefix(got[k], "other:") {
							x.Failf("C15:unexpected-response:"+v.kind+":cache="+vfC15CacheName(caches[k]), "%s answered %s (history %s)", v.kind, got[k], strings.Join(trail, " "))
						}
					}
					// The verdict of such a request is NOT judged: a warm cache deliberately answers
					// without consulting the call token (pinned by the repository's own
					// TestResolveCallFallsBackToTheClientToken), and the statement quantifies over
					// continuations, i.e. requests presenting the stream's own tokens. What is judged
					// is that the noise leaves every later continuation's outcome unchanged; the
					// client keeps using the cursor it held before (cursors are not single-use).
				case "adv":
					vsched.Advance(v.d)
				}
			}
			// canonical state: clock-relative ages (capped), liveness, and each instance's cache content
			var parts []string
			now := vsched.Now()
			capAge := func(t time.Time) string {
				a := now.Sub(t)
				if a > vfC15TTL {
					return ">ttl"
				}
				return a.String()
			}
			for s := 0; s < nStreams; s++ {
				switch {
				case !inited[s]:
					parts = append(parts, "s:none")
				case dead[s]:
					parts = append(parts, "s:dead")
				default:
					parts = append(parts, fmt.Sprintf("s:cur=%s,call=%s", capAge(cursorAt[s]), capAge(callAt[s])))
				}
			}
			// cache content of the caching worlds, read from the real caches, with
			// every entry labelled by the stream it belongs to (call ids are random)
			for wi, w := range worlds[1:] {
				label := map[string]string{}
				for sidx := 0; sidx < nStreams; sidx++ {
					if !inited[sidx] || w.cursor[sidx] == "" {
						continue
					}
					// the cursor may be expired by now; read its call id with the TTL check bypassed
					var data cursorTokenData
					if err := w.h[0].openToken(cursorTokenVersion, []byte(w.cursor[sidx]), stateTokenAad(nil), &data); err == nil {
						label[data.CallID] = fmt.Sprintf("s%d", sidx)
					}
				}
				for i, h := range w.h {
					var es []string
					for key, el := range h.callStates.entries {
						ent := el.Value.(*callStateEntry)
						id, _, _ := strings.Cut(key, "\x00")
						left := ent.expiresAt.Sub(now)
						ls := "expired"
						if left >= 0 {
							ls = left.String()
						}
						es = append(es, label[id]+":"+ls)
					}
					sort.Strings(es)
					parts = append(parts, fmt.Sprintf("w%d.inst%d:%v", wi, i, es))
				}
			}
			return strings.Join(parts, ";"), true
		},
	})
}

func vfC15CacheName(c int) string {
	switch c {
	case 0:
		return "disabled"
	case -1:
		return "default"
	}
	return fmt.Sprint(c)
}
