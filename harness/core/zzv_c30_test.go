//go:build verif

package vgirpc

import (
	"bytes"
	"context"
	"crypto/sha256"
	"encoding/binary"
	"encoding/hex"
	"fmt"
	"io"
	"net/http"
	"runtime/debug"
	"sort"
	"strings"
	"testing"
	"time"

	"github.com/apache/arrow-go/v18/arrow"
	"github.com/apache/arrow-go/v18/arrow/array"
	"github.com/klauspost/compress/zstd"

	"github.com/Query-farm/vgi-rpc-go/vgirpc/internal/verif/venum"
)

// C30 — externalised batches resolve to exactly the uploaded data.
//
// Everything runs in memory: the ExternalStorage is a map, and the
// ExternalLocationConfig.HTTPClient carries a RoundTripper that serves that map
// (no sockets). Four spaces:
//
//   roundtrip   batches x threshold position x metadata carrier x schema metadata
//               x compression, through MaybeExternalizeBatch + ResolveExternalLocation
//   fetched     hand-built fetched streams: every sequence of length <=3 over
//               {data, second data, log, EXCEPTION, pointer, zero-row non-log}
//   tamper      every single-byte flip / every truncation of the stored object,
//               and wrong checksums
//   e2e         the real server paths that externalise (pipe/HTTP unary, HTTP
//               producer/exchange, pipe producer/exchange) compared, after
//               resolution, with the same call on a server without external storage

// ---------------------------------------------------------------------------
// in-memory storage + transport

type vfC30Obj struct {
	data []byte
	enc  string
}

type vfC30Store struct {
	// keepSlice: store the slice Upload was handed instead of a private copy - what the
	// repository's own in-memory mock, a write-behind cache or a batching uploader does. The
	// ExternalStorage contract does not let the library touch those bytes after Upload.
	keepSlice bool
	base      string
	objs      map[string]vfC30Obj
	order     []string
	uploads   int
	gets      []string
}

// vfC30Epoch gives every store its own URL namespace. The code under test may keep
// process-global state keyed by location (caches, memo tables); an execution must not be
// able to see what an earlier execution did to "the same" URL, or outcomes would depend
// on exploration order.
var vfC30Epoch int

func vfC30NewStore() *vfC30Store {
	vfC30Epoch++
	return &vfC30Store{objs: map[string]vfC30Obj{}, base: fmt.Sprintf("https://store.test/e%d", vfC30Epoch)}
}

func (s *vfC30Store) Upload(data []byte, schema *arrow.Schema, contentEncoding string) (string, error) {
	s.uploads++
	u := fmt.Sprintf("%s/obj/%d", s.base, s.uploads)
	if s.keepSlice {
		s.objs[u] = vfC30Obj{data: data, enc: contentEncoding}
	} else {
		s.objs[u] = vfC30Obj{data: append([]byte{}, data...), enc: contentEncoding}
	}
	s.order = append(s.order, u)
	return u, nil
}

func (s *vfC30Store) put(u string, data []byte, enc string) {
	s.objs[u] = vfC30Obj{data: data, enc: enc}
}

func (s *vfC30Store) RoundTrip(req *http.Request) (*http.Response, error) {
	u := req.URL.String()
	s.gets = append(s.gets, u)
	o, ok := s.objs[u]
	resp := &http.Response{Proto: "HTTP/1.1", ProtoMajor: 1, ProtoMinor: 1, Header: http.Header{}, Request: req}
	if !ok {
		resp.StatusCode, resp.Status = 404, "404 Not Found"
		resp.Body = io.NopCloser(bytes.NewReader(nil))
		return resp, nil
	}
	resp.StatusCode, resp.Status = 200, "200 OK"
	if o.enc != "" {
		resp.Header.Set("Content-Encoding", o.enc)
	}
	resp.ContentLength = int64(len(o.data))
	resp.Body = io.NopCloser(bytes.NewReader(o.data))
	return resp, nil
}

func (s *vfC30Store) config(threshold int64, zstdOn bool) *ExternalLocationConfig {
	cfg := &ExternalLocationConfig{
		Storage:                   s,
		ExternalizeThresholdBytes: threshold,
		URLValidator:              HTTPSOnlyValidator,
		MaxRetries:                1,
		RetryDelay:                time.Nanosecond, // <=0 would mean 500ms of real sleeping per retry
		HTTPClient:                &http.Client{Transport: s},
	}
	if zstdOn {
		cfg.Compression = &Compression{Algorithm: "zstd", Level: 1}
	}
	return cfg
}

// ---------------------------------------------------------------------------
// batch alphabet

type vfC30Shape struct {
	name string
	mk   func(schemaMeta *arrow.Metadata) arrow.RecordBatch
}

func vfC30Col(name string, typ arrow.DataType, js string) vfC30Shape {
	return vfC30Shape{name: name, mk: func(sm *arrow.Metadata) arrow.RecordBatch {
		return vfBatchJSON(arrow.NewSchema([]arrow.Field{{Name: "c", Type: typ, Nullable: true}}, sm), js)
	}}
}

func vfC30Shapes() []vfC30Shape {
	return []vfC30Shape{
		vfC30Col("int64", arrow.PrimitiveTypes.Int64, `[{"c":1},{"c":-2},{"c":null},{"c":9007199254740993}]`),
		vfC30Col("utf8", arrow.BinaryTypes.String, `[{"c":"a"},{"c":"日本"},{"c":null},{"c":""}]`),
		vfC30Col("list<int64>", arrow.ListOf(arrow.PrimitiveTypes.Int64), `[{"c":[1,2]},{"c":[]},{"c":null}]`),
		vfC30Col("binary", arrow.BinaryTypes.Binary, `[{"c":"AAEC/w=="},{"c":null},{"c":""}]`),
		vfC30Col("bool", arrow.FixedWidthTypes.Boolean, `[{"c":true},{"c":false},{"c":null}]`),
		vfC30Col("float64", arrow.PrimitiveTypes.Float64, `[{"c":1.5},{"c":-0.0},{"c":null},{"c":1e300}]`),
		vfC30Col("timestamp[us]", &arrow.TimestampType{Unit: arrow.Microsecond, TimeZone: "UTC"}, `[{"c":"2020-01-02T03:04:05.000006Z"},{"c":null},{"c":"1969-12-31T23:59:59.999999Z"}]`),
		vfC30Col("struct<a:utf8>", arrow.StructOf(arrow.Field{Name: "a", Type: arrow.BinaryTypes.String, Nullable: true}), `[{"c":{"a":"x"}},{"c":null},{"c":{"a":null}}]`),
		vfC30Col("dictionary<int16,utf8>", &arrow.DictionaryType{IndexType: arrow.PrimitiveTypes.Int16, ValueType: arrow.BinaryTypes.String}, `[{"c":"a"},{"c":"b"},{"c":"a"},{"c":null}]`),
		{name: "int64+utf8", mk: func(sm *arrow.Metadata) arrow.RecordBatch {
			return vfBatchJSON(arrow.NewSchema([]arrow.Field{
				{Name: "n", Type: arrow.PrimitiveTypes.Int64},
				{Name: "s", Type: arrow.BinaryTypes.String, Nullable: true, Metadata: arrow.NewMetadata([]string{"fk"}, []string{"fv"})},
			}, sm), `[{"n":1,"s":"one"},{"n":2,"s":null}]`)
		}},
		// incompressible payloads (a sha256 chain: deterministic, high entropy): zstd output is
		// not smaller than the input for the column data, which exercises the
		// "compression configured but it does not pay" corner of the upload path
		{name: "int64-high-entropy", mk: func(sm *arrow.Metadata) arrow.RecordBatch {
			raw := vfC30Entropy(8 * 2048)
			b := array.NewInt64Builder(vfMem)
			defer b.Release()
			for i := 0; i+8 <= len(raw); i += 8 {
				b.Append(int64(binary.LittleEndian.Uint64(raw[i:])))
			}
			arr := b.NewArray()
			defer arr.Release()
			sc := arrow.NewSchema([]arrow.Field{{Name: "c", Type: arrow.PrimitiveTypes.Int64}}, sm)
			return array.NewRecordBatch(sc, []arrow.Array{arr}, int64(arr.Len()))
		}},
		{name: "binary-high-entropy", mk: func(sm *arrow.Metadata) arrow.RecordBatch {
			raw := vfC30Entropy(32 * 1024)
			b := array.NewBinaryBuilder(vfMem, arrow.BinaryTypes.Binary)
			defer b.Release()
			b.Append(raw[:20000])
			b.AppendNull()
			b.Append(raw[20000:])
			arr := b.NewArray()
			defer arr.Release()
			sc := arrow.NewSchema([]arrow.Field{{Name: "c", Type: arrow.BinaryTypes.Binary, Nullable: true}}, sm)
			return array.NewRecordBatch(sc, []arrow.Array{arr}, int64(arr.Len()))
		}},
	}
}

// vfC30Meta renders the effective custom metadata of (batch, meta) the way a
// reader of the wire would see it, minus the two keys the resolver documents
// that it adds.
func vfC30Meta(b arrow.RecordBatch, extra arrow.Metadata) string {
	m := map[string]string{}
	add := func(md arrow.Metadata) {
		for i, k := range md.Keys() {
			if k == MetaLocationFetchMs || k == MetaLocationSource {
				continue
			}
			m[k] = md.Values()[i]
		}
	}
	if bwm, ok := b.(arrow.RecordBatchWithMetadata); ok {
		add(bwm.Metadata())
	}
	add(extra)
	var parts []string
	for k, v := range m {
		parts = append(parts, k+"="+v)
	}
	sort.Strings(parts)
	return strings.Join(parts, "|")
}

func vfC30OwnMeta(b arrow.RecordBatch) string { return vfC30Meta(b, arrow.Metadata{}) }

func vfC30SchemaFull(s *arrow.Schema) string {
	var parts []string
	for _, f := range s.Fields() {
		parts = append(parts, fmt.Sprintf("%s:%s:null=%v:md=%s", f.Name, f.Type, f.Nullable, vfMetaString(f.Metadata)))
	}
	return "{" + strings.Join(parts, ",") + "}md[" + vfMetaString(s.Metadata()) + "]"
}

func vfC30JSON(b arrow.RecordBatch) string {
	js, err := b.MarshalJSON()
	if err != nil {
		return "<json-error " + err.Error() + ">"
	}
	return strings.TrimSpace(string(js))
}

// vfC30Diff compares got against want in schema (incl. schema/field metadata),
// values and custom metadata. It returns "" when equal, else the aspect that
// differs.
func vfC30Diff(want arrow.RecordBatch, wantMeta string, got arrow.RecordBatch, gotMeta string) (aspect, detail string) {
	if !want.Schema().Equal(got.Schema()) || !want.Schema().Metadata().Equal(got.Schema().Metadata()) {
		return "schema", fmt.Sprintf("schema %s != %s", vfC30SchemaFull(got.Schema()), vfC30SchemaFull(want.Schema()))
	}
	if want.NumRows() != got.NumRows() || !array.RecordEqual(want, got) {
		return "values", fmt.Sprintf("values %s (rows %d) != %s (rows %d)", vfC30JSON(got), got.NumRows(), vfC30JSON(want), want.NumRows())
	}
	if wantMeta != gotMeta {
		return "custom-metadata", fmt.Sprintf("custom metadata %q != %q", gotMeta, wantMeta)
	}
	return "", ""
}

var vfC30Enc, _ = zstd.NewWriter(nil, zstd.WithEncoderLevel(zstd.SpeedFastest), zstd.WithEncoderConcurrency(1))

// vfC30Forged is a well-formed stream of the same schema that is NOT the uploaded
// data (first row only, no custom metadata), encoded the way the object is labelled.
func vfC30Forged(orig arrow.RecordBatch, enc string) []byte {
	one := orig.NewSlice(0, 1)
	defer one.Release()
	plain := array.NewRecordBatch(one.Schema(), one.Columns(), one.NumRows())
	defer plain.Release()
	b := vfStreamBytes(orig.Schema(), plain)
	if enc == "zstd" {
		b = vfC30Enc.EncodeAll(b, nil)
	}
	return b
}

var vfC30Dec, _ = zstd.NewReader(nil, zstd.WithDecoderConcurrency(1))

// vfC30Entropy returns n deterministic high-entropy bytes (sha256 chain from a fixed seed).
func vfC30Entropy(n int) []byte {
	out := make([]byte, 0, n+32)
	h := sha256.Sum256([]byte("vgi-verif-c30"))
	for len(out) < n {
		out = append(out, h[:]...)
		h = sha256.Sum256(h[:])
	}
	return out[:n]
}

func vfC30Sha(b []byte) string { h := sha256.Sum256(b); return hex.EncodeToString(h[:]) }

func vfC30ErrClass(err error) string {
	if err == nil {
		return "ok"
	}
	s := err.Error()
	for _, k := range []string{"checksum mismatch", "redirect loop", "no data batch", "parsing external IPC", "decompressing", "status 404", "rejected by validator"} {
		if strings.Contains(s, k) {
			return "err:" + k
		}
	}
	return "err:other"
}

// ---------------------------------------------------------------------------

func TestVerif_C30(t *testing.T) {
	venum.Begin("C30")
	defer venum.Finish(t)
	shapes := vfC30Shapes()

	// ---- space 1: round trip ------------------------------------------------
	venum.Explore(t, venum.Cfg{Name: "roundtrip", Shardable: true}, func(x *venum.X) {
		sh := shapes[x.Choose(len(shapes), "shape")]
		rel := x.Pick("size-vs-threshold", "threshold-1", "threshold", "threshold+1")
		carrier := x.Pick("custom-metadata", "none", "on-batch", "meta-arg", "both-sharing-a-key")
		smeta := x.Pick("schema-metadata", "none", "app-key", "log_level-key", "location-key")
		zs := x.Bool("zstd")

		var sm *arrow.Metadata
		switch smeta {
		case "app-key":
			m := arrow.NewMetadata([]string{"app"}, []string{"1"})
			sm = &m
		case "log_level-key":
			m := arrow.NewMetadata([]string{MetaLogLevel}, []string{"INFO"})
			sm = &m
		case "location-key":
			m := arrow.NewMetadata([]string{MetaLocation}, []string{"https://elsewhere.test/x"})
			sm = &m
		}
		orig := sh.mk(sm)
		argMeta := arrow.Metadata{}
		switch carrier {
		case "on-batch":
			orig = vfWithMeta(orig, "k", "v")
		case "meta-arg":
			argMeta = arrow.NewMetadata([]string{"k"}, []string{"v"})
		case "both-sharing-a-key":
			// the batch still carries metadata from an earlier life AND metadata is handed over for
			// this emission; they disagree on one key. The handed-over metadata is the authoritative
			// one everywhere in this package (an inline write replaces the attached metadata with it),
			// so that value has to come back; batch-only keys may or may not survive.
			orig = vfWithMeta(orig, "k", "stale", "own", "1")
			argMeta = arrow.NewMetadata([]string{"k", "arg"}, []string{"fresh", "2"})
		}
		wantMeta := vfC30Meta(orig, argMeta)
		size := batchBufferSize(orig)
		if size < 2 {
			x.Failf("C30:harness:shape-too-small", "shape %s has buffer size %d", sh.name, size)
			return
		}
		thr := size
		switch rel {
		case "threshold-1": // the batch is one byte below the threshold
			thr = size + 1
		case "threshold+1":
			thr = size - 1
		}
		st := vfC30NewStore()
		cfg := st.config(thr, zs)
		cls := "C30:roundtrip"
		rcls := cls // class for resolve failures: depends on the schema metadata only
		if smeta == "log_level-key" || smeta == "location-key" {
			rcls += ":schema-md-" + smeta
		}

		ob, om, err := MaybeExternalizeBatch(orig, argMeta, cfg)
		if err != nil {
			x.Failf(cls+":externalize-error", "%s %s: %v", sh.name, rel, err)
			return
		}
		if rel == "threshold-1" {
			if ob != orig || st.uploads != 0 || vfC30Meta(ob, om) != wantMeta {
				x.Failf(cls+":below-threshold-changed", "%s: batch below threshold was altered (uploads=%d, meta %q want %q)", sh.name, st.uploads, vfC30Meta(ob, om), wantMeta)
			}
			x.Outcome("inline uploads=%d", st.uploads)
			return
		}
		if ob == orig || st.uploads != 1 || !IsExternalLocationBatch(ob, om) {
			x.Failf(cls+":not-externalized", "%s %s (size %d thr %d): uploads=%d pointer=%v", sh.name, rel, size, thr, st.uploads, IsExternalLocationBatch(ob, om))
			x.Outcome("not-externalized")
			return
		}
		upEnc := st.objs[st.order[0]].enc
		if upEnc == "zstd" {
			// the store serves every object with exactly the encoding it was uploaded with, so an
			// object labelled zstd has to BE zstd
			if _, derr := vfC30Dec.DecodeAll(st.objs[st.order[0]].data, nil); derr != nil {
				x.Failf(cls+":uploaded-object-labelled-zstd-is-not-zstd", "%s %s: upload declared Content-Encoding zstd but the %d stored bytes do not decode: %v", sh.name, rel, len(st.objs[st.order[0]].data), derr)
			}
		}
		if zs != (upEnc == "zstd") {
			x.Failf(cls+":compression-setting-ignored", "zstd=%v but upload declared encoding %q", zs, upEnc)
		}
		// what a receiver does: resolve the pointer it was handed
		rb, rm, rerr := ResolveExternalLocation(ob, om, cfg)
		if rerr != nil {
			x.Failf(rcls+":resolve-error", "%s %s zstd=%v schema-md=%s: %v", sh.name, rel, zs, smeta, rerr)
			x.Outcome("resolve %s", vfC30ErrClass(rerr))
			return
		}
		gotMeta := vfC30Meta(rb, rm)
		if carrier == "both-sharing-a-key" && gotMeta == "arg=2|k=fresh" {
			gotMeta = wantMeta // batch-only key dropped: what an inline write does as well
		}
		if asp, d := vfC30Diff(orig, wantMeta, rb, gotMeta); asp != "" {
			if asp == "custom-metadata" && carrier == "both-sharing-a-key" {
				x.Failf(cls+":metadata-precedence", "%s %s zstd=%v: batch carries k=stale, the metadata handed over says k=fresh; after the round trip: %s", sh.name, rel, zs, d)
			} else if asp == "custom-metadata" && carrier == "meta-arg" {
				x.Failf(cls+":meta-arg-dropped", "%s %s zstd=%v: metadata passed in the meta argument is gone after the round trip: %s", sh.name, rel, zs, d)
			} else {
				x.Failf(cls+":"+carrier+":"+asp+"-differs", "%s %s zstd=%v: %s", sh.name, rel, zs, d)
			}
		}
		x.Outcome("externalized enc=%s gets=%d rows=%d md=%s", upEnc, len(st.gets), rb.NumRows(), vfC30Meta(rb, rm))
	})

	// ---- space 1b: histories of several externalisations, resolved afterwards ------------
	// Every earlier space externalises ONE batch per store. Here one config/store sees a
	// sequence of uploads and only then are the pointers resolved, in every order position:
	// an upload must stay what it was when later batches go through the same path.
	seqShapes := []int{0, 1, 9, 10} // int64, utf8, int64+utf8 (small), int64-high-entropy (large)
	venum.Explore(t, venum.Cfg{Name: "externalize-sequences", Shardable: true}, func(x *venum.X) {
		n := 2 + x.Choose(venum.QT(1, 2), "extra-uploads") // 2 (thorough: 2..3) uploads
		zs := x.Bool("zstd")
		keep := x.Bool("store-keeps-the-uploaded-slice")
		var idx []int
		for i := 0; i < n; i++ {
			idx = append(idx, seqShapes[x.Choose(len(seqShapes), fmt.Sprintf("shape%d", i+1))])
		}
		// a garbage collection between two uploads may or may not empty sync.Pools and move
		// allocations; keep the collector out of the execution so that it is a function of the
		// choices only
		defer debug.SetGCPercent(debug.SetGCPercent(-1))
		st := vfC30NewStore()
		st.keepSlice = keep
		cfg := st.config(1, zs)
		type up struct {
			orig arrow.RecordBatch
			pb   arrow.RecordBatch
			pm   arrow.Metadata
			url  string
			snap []byte
		}
		var ups []up
		for i, si := range idx {
			orig := vfWithMeta(shapes[si].mk(nil), "seq", fmt.Sprint(i))
			pb, pm, err := MaybeExternalizeBatch(orig, arrow.Metadata{}, cfg)
			if err != nil || st.uploads != i+1 || !IsExternalLocationBatch(pb, pm) {
				x.Failf("C30:sequence:not-externalized", "upload %d (%s): err=%v uploads=%d", i+1, shapes[si].name, err, st.uploads)
				return
			}
			u := st.order[i]
			ups = append(ups, up{orig: orig, pb: pb, pm: pm, url: u, snap: append([]byte{}, st.objs[u].data...)})
			// every earlier object must still hold the bytes it held when it was uploaded
			for j := 0; j < i; j++ {
				if !bytes.Equal(st.objs[ups[j].url].data, ups[j].snap) {
					x.Failf("C30:sequence:earlier-upload-overwritten-by-later-externalization", "after upload %d (%s) the stored object of upload %d (%s) no longer holds the bytes that were uploaded (store keeps slice=%v zstd=%v)", i+1, shapes[si].name, j+1, shapes[idx[j]].name, keep, zs)
				}
			}
		}
		var res []string
		for j, u := range ups {
			rb, rm, err := ResolveExternalLocation(u.pb, u.pm, cfg)
			if err != nil {
				x.Failf("C30:sequence:resolve-error", "pointer %d of %d (%s, store keeps slice=%v zstd=%v): %v", j+1, len(ups), shapes[idx[j]].name, keep, zs, err)
				res = append(res, vfC30ErrClass(err))
				continue
			}
			if asp, d := vfC30Diff(u.orig, vfC30OwnMeta(u.orig), rb, vfC30Meta(rb, rm)); asp != "" {
				x.Failf("C30:sequence:"+asp+"-differs", "pointer %d of %d (%s) resolved to something else: %s", j+1, len(ups), shapes[idx[j]].name, d)
			}
			res = append(res, fmt.Sprintf("ok:%s:%d", shapes[idx[j]].name, rb.NumRows()))
		}
		x.Outcome("zstd=%v keep=%v %v", zs, keep, res)
	})

	// ---- space 2: fetched streams -------------------------------------------
	elems := []string{"D1", "D2", "LOG", "EXC", "PTR", "Z"}
	venum.Explore(t, venum.Cfg{Name: "fetched-streams", Shardable: true}, func(x *venum.X) {
		sh := shapes[x.Choose(venum.QT(2, 4), "shape")]
		withSha := x.Bool("pointer-has-sha256")
		n := x.Choose(4, "len")
		var seq []string
		for i := 0; i < n; i++ {
			seq = append(seq, elems[x.Choose(len(elems), fmt.Sprintf("elem%d", i))])
		}
		full := sh.mk(nil)
		schema := full.Schema()
		d1 := vfWithMeta(full, "app", "d1")
		d2 := full.NewSlice(0, 1)
		st := vfC30NewStore()
		mkElem := func(e string) arrow.RecordBatch {
			switch e {
			case "D1":
				return d1
			case "D2":
				return d2
			case "LOG":
				return vfEmpty(schema, MetaLogLevel, "INFO", MetaLogMessage, "a log line")
			case "EXC":
				return vfEmpty(schema, MetaLogLevel, string(LogException), MetaLogMessage, "boom", MetaLogExtra, `{"exception_type":"ValueError"}`)
			case "PTR":
				return vfEmpty(schema, MetaLocation, st.base+"/nested")
			default:
				return vfEmpty(schema)
			}
		}
		var batches []arrow.RecordBatch
		for _, e := range seq {
			batches = append(batches, mkElem(e))
		}
		body := vfStreamBytes(schema, batches...)
		st.put(st.base+"/top", body, "")
		// if an implementation chased nested pointers it would find real data here
		st.put(st.base+"/nested", vfStreamBytes(schema, d2), "")
		cfg := st.config(1, false)
		var pb arrow.RecordBatch
		var pm arrow.Metadata
		if withSha {
			pb, pm = MakeExternalLocationBatch(schema, st.base+"/top", vfC30Sha(body))
		} else {
			pb, pm = MakeExternalLocationBatch(schema, st.base+"/top")
		}
		rb, rm, err := ResolveExternalLocation(pb, pm, cfg)

		hasPtr, nData := false, 0
		for _, e := range seq {
			if e == "PTR" {
				hasPtr = true
			}
			if e == "D1" || e == "D2" || e == "Z" {
				nData++
			}
		}
		hist := strings.Join(seq, ",")
		if err != nil {
			x.Outcome("[%s] %s", hist, vfC30ErrClass(err))
			return
		}
		// which element came back?
		got := "?"
		own := vfC30OwnMeta(rb)
		switch {
		case rb.NumRows() == d1.NumRows() && array.RecordEqual(rb, d1) && own == "app=d1":
			got = "D1"
		case rb.NumRows() == 1 && array.RecordEqual(rb, d2) && own == "":
			got = "D2"
		case rb.NumRows() == 0 && strings.Contains(own, MetaLogLevel+"=EXCEPTION"):
			got = "EXC"
		case rb.NumRows() == 0 && strings.Contains(own, MetaLogLevel+"="):
			got = "LOG"
		case rb.NumRows() == 0 && strings.Contains(own, MetaLocation+"="):
			got = "PTR"
		case rb.NumRows() == 0 && own == "":
			got = "Z"
		}
		_ = rm
		x.Outcome("[%s] ok -> %s", hist, got)
		switch {
		case hasPtr:
			x.Failf("C30:fetched:nested-pointer-not-refused", "fetched stream [%s] contains a pointer batch but resolution succeeded and returned %s", hist, got)
		case nData == 0:
			x.Failf("C30:fetched:no-data-batch-not-refused", "fetched stream [%s] has no data batch but resolution succeeded and returned %s", hist, got)
		case got == "LOG":
			x.Failf("C30:fetched:log-returned-as-data", "fetched stream [%s]: the log batch was returned as the resolved data", hist)
		case got == "EXC":
			x.Failf("C30:fetched:exception-returned-as-data", "fetched stream [%s]: the EXCEPTION batch was returned as the resolved data", hist)
		case got == "?" || got == "PTR":
			x.Failf("C30:fetched:foreign-batch-returned", "fetched stream [%s]: returned batch %s md=%q is none of the stream's data batches", hist, vfC30JSON(rb), own)
		default:
			present := false
			for _, e := range seq {
				if e == got {
					present = true
				}
			}
			if !present {
				x.Failf("C30:fetched:foreign-batch-returned", "fetched stream [%s]: returned %s which is not in the stream", hist, got)
			}
		}
	})

	// ---- space 3: tampering ---------------------------------------------------
	masks := venum.QT([]byte{0xFF}, []byte{0x01, 0xFF})
	venum.Explore(t, venum.Cfg{Name: "tamper", Shardable: true}, func(x *venum.X) {
		sh := shapes[x.Choose(venum.QT(2, 10), "shape")] // the small shapes; the large high-entropy ones add nothing here
		zs := x.Bool("zstd")
		kind := x.Pick("tamper", "flip", "truncate", "wrong-checksum", "none")
		orig := vfWithMeta(sh.mk(nil), "k", "v")
		st := vfC30NewStore()
		cfg := st.config(1, zs)
		pb, pm, err := MaybeExternalizeBatch(orig, arrow.Metadata{}, cfg)
		if err != nil || st.uploads != 1 {
			x.Failf("C30:tamper:setup", "externalize failed: %v uploads=%d", err, st.uploads)
			return
		}
		u := st.order[0]
		obj := st.objs[u]
		raw := obj.data
		if obj.enc == "zstd" {
			raw, err = vfC30Dec.DecodeAll(obj.data, nil)
			if err != nil {
				x.Failf("C30:tamper:setup", "stored object is not zstd: %v", err)
				return
			}
		}
		sha, _ := metaGet(pm, MetaLocationSHA256)
		if sha != vfC30Sha(raw) {
			x.Failf("C30:tamper:pointer-checksum-not-of-raw-ipc", "pointer sha %q, raw IPC sha %q", sha, vfC30Sha(raw))
			return
		}
		stored := append([]byte{}, obj.data...)
		where := ""
		switch kind {
		case "flip":
			i := x.Choose(len(stored), "pos")
			stored[i] ^= masks[x.Choose(len(masks), "mask")]
			where = fmt.Sprintf("byte %d of %d", i, len(stored))
		case "truncate":
			nlen := x.Choose(len(stored), "newlen")
			stored = stored[:nlen]
			where = fmt.Sprintf("to %d of %d bytes", nlen, len(obj.data))
		case "wrong-checksum":
			alt := x.Pick("checksum", "one-digit", "zeros", "of-other-data", "empty-string", "truncated")
			bad := sha
			switch alt {
			case "one-digit":
				c := byte('0')
				if sha[0] == '0' {
					c = '1'
				}
				bad = string(c) + sha[1:]
			case "zeros":
				bad = strings.Repeat("0", 64)
			case "of-other-data":
				bad = vfC30Sha([]byte("other"))
			case "empty-string":
				bad = ""
			case "truncated":
				bad = sha[:32]
			}
			where = alt
			pm = arrow.NewMetadata([]string{MetaLocation, MetaLocationSHA256}, []string{u, bad})
		}
		st.put(u, stored, obj.enc)
		// does the (possibly tampered) object still decode to the uploaded bytes?
		same := true
		if kind == "flip" || kind == "truncate" {
			eff := stored
			if obj.enc == "zstd" {
				d, derr := vfC30Dec.DecodeAll(stored, nil)
				eff = d
				if derr != nil {
					eff = nil
				}
			}
			same = bytes.Equal(eff, raw)
		}
		comp := "plain"
		if zs {
			comp = "zstd"
		}
		if !same {
			// Guard. A damaged payload that gets past the checksum goes straight into arrow-go's
			// IPC reader, which allocates whatever lengths the damaged framing declares - a fatal
			// out-of-memory, not a panic, that would take the explorer down (exit 2 instead of a
			// report). So first serve a harmless well-formed forgery from the same location: only if
			// THAT is refused (the checksum is enforced here) is the damaged payload served at all.
			st.put(u, vfC30Forged(orig, obj.enc), obj.enc)
			if frb, _, ferr := ResolveExternalLocation(pb, pm, cfg); ferr == nil {
				x.Failf("C30:tamper:forged-stream:"+comp+":accepted", "%s: the location served a different well-formed stream (%d rows instead of %d) and resolution accepted it although the pointer carries the checksum of the upload", sh.name, frb.NumRows(), orig.NumRows())
				x.Outcome("%s %s forged accepted", kind, comp)
				return
			}
			st.put(u, stored, obj.enc)
		}
		rb, rm, rerr := ResolveExternalLocation(pb, pm, cfg)
		x.Outcome("%s %s same=%v -> %s", kind, comp, same, vfC30ErrClass(rerr))
		switch {
		case kind == "wrong-checksum":
			if rerr == nil {
				x.Failf("C30:tamper:wrong-checksum:"+where+":accepted", "pointer checksum %s does not match the download but resolution succeeded", where)
			}
		case !same:
			if rerr == nil {
				x.Failf("C30:tamper:"+kind+":"+comp+":accepted", "%s: stored object tampered (%s), payload differs from the checksummed bytes, but resolution succeeded with %s", sh.name, where, vfC30JSON(rb))
			}
		default:
			// untouched (or a flip the decoder provably ignores): must still resolve to the original
			if rerr != nil {
				x.Failf("C30:tamper:"+kind+":"+comp+":intact-payload-refused", "%s (%s): %v", sh.name, where, rerr)
			} else if asp, d := vfC30Diff(orig, vfC30OwnMeta(orig), rb, vfC30Meta(rb, rm)); asp != "" {
				x.Failf("C30:tamper:"+kind+":"+comp+":"+asp+"-differs", "%s (%s): %s", sh.name, where, d)
			}
		}
	})

	// ---- space 3b: one pointer resolved several times while the location changes -------------
	// Every space above resolves a pointer once. Here the same pointer is resolved k times while
	// the location is honest and then again after the location started to serve something else:
	// whatever the resolver remembers between calls must not weaken "a download whose checksum
	// does not match is refused".
	venum.Explore(t, venum.Cfg{Name: "resolve-histories", Shardable: true}, func(x *venum.X) {
		sh := shapes[x.Choose(venum.QT(3, 10), "shape")]
		zs := x.Bool("zstd")
		honest := x.Choose(3, "honest-resolutions-first")
		what := x.Pick("then-the-location-serves", "forged-stream", "column-byte-flipped", "truncated", "another-upload")
		orig := vfWithMeta(sh.mk(nil), "k", "v")
		st := vfC30NewStore()
		cfg := st.config(1, zs)
		pb, pm, err := MaybeExternalizeBatch(orig, arrow.Metadata{}, cfg)
		other := vfWithMeta(orig.NewSlice(0, 1), "k", "other")
		_, _, err2 := MaybeExternalizeBatch(other, arrow.Metadata{}, cfg)
		if err != nil || err2 != nil || st.uploads != 2 {
			x.Failf("C30:history:setup", "externalize failed: %v %v uploads=%d", err, err2, st.uploads)
			return
		}
		u := st.order[0]
		obj := st.objs[u]
		comp := "plain"
		if zs {
			comp = "zstd"
		}
		var trace []string
		for i := 0; i < honest; i++ {
			rb, rm, rerr := ResolveExternalLocation(pb, pm, cfg)
			if rerr != nil {
				x.Failf("C30:history:honest-resolution-refused", "resolution %d of an untouched upload failed: %v", i+1, rerr)
				return
			}
			if asp, d := vfC30Diff(orig, vfC30OwnMeta(orig), rb, vfC30Meta(rb, rm)); asp != "" {
				x.Failf("C30:history:honest-resolution:"+asp+"-differs", "resolution %d: %s", i+1, d)
			}
			trace = append(trace, "ok")
		}
		var served []byte
		switch what {
		case "forged-stream":
			served = vfC30Forged(orig, obj.enc)
		case "another-upload":
			served = st.objs[st.order[1]].data
		case "truncated":
			served = obj.data[:len(obj.data)*2/3]
		case "column-byte-flipped":
			// flip the last byte of the raw stream's last message body (a column buffer byte:
			// cannot change any length), re-encode if the object is compressed
			raw := obj.data
			if obj.enc == "zstd" {
				raw, _ = vfC30Dec.DecodeAll(obj.data, nil)
			}
			raw = append([]byte{}, raw...)
			if len(raw) > 9 {
				raw[len(raw)-9] ^= 0x01 // the byte just before the 8-byte end-of-stream marker
			}
			served = raw
			if obj.enc == "zstd" {
				served = vfC30Enc.EncodeAll(raw, nil)
			}
		}
		st.put(u, served, obj.enc)
		for i := 0; i < 2; i++ {
			rb, _, rerr := ResolveExternalLocation(pb, pm, cfg)
			trace = append(trace, vfC30ErrClass(rerr))
			if rerr == nil {
				when := "accepted-on-first-resolution"
				if honest > 0 {
					when = "accepted-after-earlier-honest-resolution"
				}
				x.Failf("C30:history:"+what+":"+when, "%s (%s): after %d honest resolution(s) of the pointer the location served %s; resolution %d afterwards accepted it (returned %d rows, upload had %d) although the checksum in the pointer does not match the download", sh.name, comp, honest, what, i+1, rb.NumRows(), orig.NumRows())
				break
			}
		}
		x.Outcome("%s %s honest=%d %v", comp, what, honest, trace)
	})

	// ---- space 4: the server paths that externalise --------------------------
	sites := []string{"pipe-unary", "http-unary", "http-producer", "http-exchange", "pipe-producer", "pipe-exchange"}
	venum.Explore(t, venum.Cfg{Name: "e2e-server-paths", Shardable: true}, func(x *venum.X) {
		site := sites[x.Choose(len(sites), "site")]
		rows := []int{1, 40}[x.Choose(2, "rows")] // 8 B (below the 64 B threshold) / 320 B (above)
		emitMeta := x.Bool("emit-metadata")
		zs := x.Bool("zstd")
		if emitMeta && strings.HasSuffix(site, "unary") {
			x.Outcome("n/a")
			return
		}

		run := func(st *vfC30Store) (res vfBatch, kind string, ok bool) {
			vfResetEvents()
			s := NewServer()
			if st != nil {
				s.SetExternalLocation(st.config(64, zs))
			}
			Unary(s, "u", func(ctx context.Context, cc *CallContext, p VfXParams) (string, error) {
				return strings.Repeat("abcdefgh", int(p.X)), nil
			})
			turn := VfTurn{Emit: 1, Rows: rows}
			if emitMeta {
				turn.Meta = []string{"app", "1"}
			}
			Producer(s, "prod", vfOutSchema, func(ctx context.Context, cc *CallContext, p VfXParams) (*StreamResult, error) {
				return &StreamResult{OutputSchema: vfOutSchema, State: &VfProducer{S: VfScript{Turns: []VfTurn{turn, {Finish: true}}}}}, nil
			})
			Exchange(s, "exch", vfOutSchema, vfInSchema, func(ctx context.Context, cc *CallContext, p VfXParams) (*StreamResult, error) {
				return &StreamResult{OutputSchema: vfOutSchema, InputSchema: vfInSchema, State: &VfExchanger{S: VfScript{Turns: []VfTurn{turn}}}}, nil
			})
			var body []byte
			var pan any
			switch site {
			case "pipe-unary":
				body, _, pan = vfServePipe(s, vfXReq("u", int64(rows)))
			case "http-unary":
				rec, p := vfArrowPost(NewHttpServer(s), "/u", vfXReq("u", int64(rows)))
				body, pan = rec.Body.Bytes(), p
			case "http-producer":
				rec, p := vfArrowPost(NewHttpServer(s), "/prod/init", vfXReq("prod", 0))
				body, pan = rec.Body.Bytes(), p
			case "http-exchange":
				h := NewHttpServer(s)
				rec, p := vfArrowPost(h, "/exch/init", vfXReq("exch", 0))
				if p != nil {
					return res, fmt.Sprintf("panic:%v", p), false
				}
				sts, _, _ := vfParseStreams(rec.Body.Bytes())
				cur, call := vfTokens(sts)
				rec2, p2 := vfArrowPost(h, "/exch/exchange", vfExchangeBody(vfI64Batch("x", 5), cur, call))
				body, pan = rec2.Body.Bytes(), p2
			case "pipe-producer":
				body, _, pan = vfServePipe(s, append(vfXReq("prod", 0), vfTicks(2)...))
			case "pipe-exchange":
				body, _, pan = vfServePipe(s, append(vfXReq("exch", 0), vfStreamBytes(vfInSchema, vfI64Batch("x", 5))...))
			}
			if pan != nil {
				return res, fmt.Sprintf("panic:%v", pan), false
			}
			sts, _, perr := vfParseStreamsOpt(body, true)
			if perr != nil {
				return res, "unparseable:" + perr.Error(), false
			}
			// the result batch: everything that is not a log, an error or a bare token batch
			var pick []vfBatch
			for _, stv := range sts {
				for _, b := range stv.Batches {
					if b.Kind == "error" {
						return res, "server-error:" + vfErrOf(b).Type + ":" + vfErrOf(b).Message, false
					}
					if b.Kind == "data" || b.Kind == "extptr" {
						pick = append(pick, b)
					}
				}
			}
			if len(pick) != 1 {
				return res, fmt.Sprintf("result-batches=%d", len(pick)), false
			}
			return pick[0], pick[0].Kind, true
		}

		base, bk, ok := run(nil)
		if !ok || base.Rows == 0 {
			x.Failf("C30:harness:e2e-baseline:"+site, "baseline (no storage) did not yield the data batch: %s rows=%d", bk, base.Rows)
			return
		}
		st := vfC30NewStore()
		ext, ek, ok := run(st)
		cls := "C30:e2e:" + site
		if emitMeta {
			cls += ":emit-metadata"
		}
		if !ok {
			x.Failf(cls+":no-result-batch", "with external storage the response has no single result batch: %s (uploads=%d)", ek, st.uploads)
			x.Outcome("%s uploads=%d broken:%s", site, st.uploads, ek)
			return
		}
		x.Outcome("%s rows=%d meta=%v uploads=%d wire=%s", site, rows, emitMeta, st.uploads, ek)
		drop := []string{MetaStreamState, MetaCallState, MetaRequestID, MetaServerID}
		if st.uploads == 0 {
			// travelled inline: must simply equal the baseline
			if ext.JSON != base.JSON || ext.MetaString(drop...) != base.MetaString(drop...) {
				x.Failf(cls+":inline-differs", "inline batch differs from baseline: %s [%s] vs %s [%s]", ext.JSON, ext.MetaString(drop...), base.JSON, base.MetaString(drop...))
			}
			return
		}
		// something was uploaded: the wire batch must be a resolvable pointer to it
		if ek != "extptr" {
			x.Failf(cls+":uploaded-but-no-pointer-on-wire", "%d upload(s) happened but the wire batch is %s rows=%d metadata [%s]: the receiver cannot find the data", st.uploads, ek, ext.Rows, ext.MetaString(drop...))
			return
		}
		pm := arrow.NewMetadata(ext.Keys, ext.Vals)
		rb, rm, rerr := ResolveExternalLocation(ext.Rec, pm, st.config(64, zs))
		if rerr != nil {
			x.Failf(cls+":resolve-error", "%v", rerr)
			return
		}
		got := vfDescribeBatch(rb, false)
		_ = rm
		if got.JSON != base.JSON || got.Schema != base.Schema {
			x.Failf(cls+":values-differ", "resolved %s %s vs baseline %s %s", got.Schema, got.JSON, base.Schema, base.JSON)
		}
		if got.MetaString(drop...) != base.MetaString(drop...) {
			x.Failf(cls+":custom-metadata-differs", "resolved metadata [%s] vs baseline [%s]", got.MetaString(drop...), base.MetaString(drop...))
		}
		if site == "http-exchange" {
			// the continuation token must be recoverable from the wire or the upload
			_, onWire := ext.M(MetaStreamState)
			_, inUpload := got.M(MetaStreamState)
			if !onWire && !inUpload {
				x.Failf(cls+":continuation-token-lost", "neither the pointer batch nor the uploaded batch carries %s", MetaStreamState)
			}
		}
	})
}
