//go:build verif

package vgirpc

import (
	"context"
	"encoding/base64"
	"fmt"
	"net/http"
	"strconv"
	"strings"
	"testing"

	"github.com/apache/arrow-go/v18/arrow"

	"github.com/Query-farm/vgi-rpc-go/vgirpc/internal/verif/venum"
)

// C13 — tokens are bound to the identity and the kind they were minted for.
//
// Identity is installed through HttpServer.SetAuthenticate: the request header
// X-Vf-Id carries an index into the identity alphabet (so principals may
// contain NUL bytes that could not travel in a header).  Every execution builds
// fresh servers sharing one fixed token key.

type vfC13Id struct {
	anon      bool
	domain    string
	principal string
}

func (i vfC13Id) auth() *AuthContext {
	if i.anon {
		return Anonymous()
	}
	return &AuthContext{Domain: i.domain, Authenticated: true, Principal: i.principal}
}

func (i vfC13Id) String() string {
	if i.anon {
		return "anonymous"
	}
	return fmt.Sprintf("auth(%q,%q)", i.domain, i.principal)
}

func vfC13Ids() []vfC13Id {
	domains := venum.QT([]string{"", "jwt"}, []string{"", "jwt", "bearer", "a b"})
	principals := venum.QT(
		[]string{"", "alice", "anonymous", "\x00anonymous", "alice\x00", "jwt\x00alice"},
		[]string{"", "alice", "bob", "anonymous", "\x00anonymous", "alice\x00", "jwt\x00alice"})
	ids := []vfC13Id{{anon: true}}
	for _, d := range domains {
		for _, p := range principals {
			ids = append(ids, vfC13Id{domain: d, principal: p})
		}
	}
	return ids
}

// vfC13Rel names the relation between minting and presenting identity.
func vfC13Rel(a, b vfC13Id) string {
	switch {
	case a == b:
		return "same"
	case a.anon:
		return "anonymous-to-authenticated"
	case b.anon:
		return "authenticated-to-anonymous"
	case a.domain != b.domain && a.principal != b.principal:
		return "other-domain-and-principal"
	case a.domain != b.domain:
		return "other-domain"
	}
	return "other-principal"
}

// vfC13Sess is the sticky-session state; Owner is the identity index that opened it.
type vfC13Sess struct {
	Owner  int
	Closed int
}

func (s *vfC13Sess) Close() error { s.Closed++; return nil }

func vfC13SessOf(cc *CallContext) int {
	if s, ok := cc.Session().(*vfC13Sess); ok && s != nil {
		return s.Owner
	}
	return -1
}

// VfC13Exch is an exchange state that records who ran it and which session it saw.
type VfC13Exch struct {
	Owner int
	N     int
}

func (p *VfC13Exch) Exchange(ctx context.Context, in arrow.RecordBatch, out *OutputCollector, cc *CallContext) error {
	vfEvents = append(vfEvents, VfEvent{What: "exchange", Method: cc.Method, Pos: p.N,
		Input: fmt.Sprintf("owner=%d sess=%d", p.Owner, vfC13SessOf(cc))})
	p.N++
	return out.Emit(vfI64Batch("v", int64(p.N)))
}

func init() { RegisterStateType(&VfC13Exch{}) }

var vfC13Key = []byte("c13-fixed-token-key-0123456789ab")

// vfC13Short abbreviates long identity parts for failure details.
func vfC13Short(v string) string {
	if len(v) > 48 {
		return fmt.Sprintf("%s…(%d bytes)", v[:40], len(v))
	}
	return v
}

// vfC13Uniq makes the identities of space 2b unique per execution (see there).
var vfC13Uniq int

const vfC13StreamID = "0123456789abcdef0123456789abcdef"

func vfC13Server(ids []vfC13Id, cacheOff, sticky bool) *HttpServer {
	s := NewServer()
	s.SetServerID("vf-c13")
	Exchange(s, "ex", vfOutSchema, vfInSchema, func(ctx context.Context, cc *CallContext, p VfXParams) (*StreamResult, error) {
		vfEvents = append(vfEvents, VfEvent{What: "init", Method: cc.Method, Input: fmt.Sprintf("owner=%d sess=%d", p.X, vfC13SessOf(cc))})
		return &StreamResult{OutputSchema: vfOutSchema, State: &VfC13Exch{Owner: int(p.X)}}, nil
	})
	Unary(s, "open", func(ctx context.Context, cc *CallContext, p VfXParams) (int64, error) {
		return 0, cc.OpenSession(&vfC13Sess{Owner: int(p.X)}, 0)
	})
	Unary(s, "who", func(ctx context.Context, cc *CallContext, p VfXParams) (int64, error) {
		o := vfC13SessOf(cc)
		vfEvents = append(vfEvents, VfEvent{What: "unary", Method: cc.Method, Input: fmt.Sprintf("sess=%d", o)})
		return int64(o), nil
	})
	h, err := NewHttpServerWithKey(s, vfC13Key)
	if err != nil {
		panic(err)
	}
	if cacheOff {
		h.SetCallStateCacheEntries(0)
	}
	if sticky {
		h.EnableSticky(0)
	}
	h.SetAuthenticate(func(r *http.Request) (*AuthContext, error) {
		i, err := strconv.Atoi(r.Header.Get("X-Vf-Id"))
		if err != nil || i < 0 || i >= len(ids) {
			return nil, &RpcError{Type: "ValueError", Message: "bad X-Vf-Id"}
		}
		return ids[i].auth(), nil
	})
	return h
}

func vfC13Stop(h *HttpServer) {
	if dh := h.DrainHandle(); dh != nil {
		dh.Shutdown() // stops the reaper goroutine of this execution's registry
	}
}

type vfC13Resp struct {
	status int
	rpcErr string
	pan    any
	errs   string
	hdr    http.Header
}

func vfC13Post(h *HttpServer, id int, path string, body []byte, hdr ...string) vfC13Resp {
	all := append([]string{"X-Vf-Id", strconv.Itoa(id)}, hdr...)
	rec, pan := vfArrowPost(h, path, body, all...)
	r := vfC13Resp{status: rec.Code, rpcErr: rec.Header().Get(rpcErrorHeader), pan: pan, hdr: rec.Header()}
	if pan == nil {
		if st, _, err := vfParseStreams(rec.Body.Bytes()); err == nil {
			for _, s := range st {
				for _, b := range s.Errs() {
					e := vfErrOf(b)
					r.errs += e.Type + ":" + e.Message + ";"
				}
			}
		}
	}
	return r
}

// vfC13Init runs /ex/init as identity id and returns the token pair.
func vfC13Init(h *HttpServer, id int, hdr ...string) (cur, call string, ok bool) {
	all := append([]string{"X-Vf-Id", strconv.Itoa(id)}, hdr...)
	rec, pan := vfArrowPost(h, "/ex/init", vfXReq("ex", int64(id)), all...)
	if pan != nil || rec.Code != 200 {
		return "", "", false
	}
	st, _, err := vfParseStreams(rec.Body.Bytes())
	if err != nil {
		return "", "", false
	}
	cur, call = vfTokens(st)
	return cur, call, cur != "" && call != ""
}

func vfC13Exchange(h *HttpServer, id int, cur, call string, hdr ...string) vfC13Resp {
	meta := []string{MetaStreamState, cur, MetaCallState, call}
	in := vfI64Batch("x", 5)
	return vfC13Post(h, id, "/ex/exchange", vfStreamBytes(in.Schema(), vfWithMeta(in, meta...)), hdr...)
}

func TestVerif_C13(t *testing.T) {
	venum.Begin("C13")
	defer venum.Finish(t)
	ids := vfC13Ids()
	n := len(ids)

	// ---- 1. cursor / call / whole-stream tokens across identities -----------
	//
	// kind "stream": A's real (cursor, call) pair presented by B (no forging).
	// kind "cursor": A's cursor + a call token for the same call sealed for B,
	//                so only the cursor's identity binding can refuse.
	// kind "call":   A's call token + a cursor for the same call sealed for B,
	//                so only the call token's identity binding can refuse
	//                (the call token is consulted whenever the cache misses).
	// The B-sealed companion token is produced with the package's own pack
	// helpers on a third server holding the same key.
	//
	// cache states of the presenting server h:
	//   off    cache disabled;  cold  tokens minted on a twin server, h unused;
	//   warmA  A ran /init and one continuation of this very stream on h;
	//   warmB  minted on the twin; B ran a stream of its own on h before;
	//   warmAB both.
	venum.Explore(t, venum.Cfg{Name: "stream-token-identity", Shardable: true}, func(x *venum.X) {
		a := x.Choose(n, "mint-as")
		b := x.Choose(n, "present-as")
		kind := x.Pick("kind", "stream", "cursor", "call")
		cache := x.Pick("cache", "off", "cold", "warmA", "warmB", "warmAB")
		A, B := ids[a], ids[b]

		vfResetEvents()
		h := vfC13Server(ids, cache == "off", false)
		mintOn := h
		if cache == "cold" || cache == "warmB" {
			mintOn = vfC13Server(ids, false, false)
		}
		cur, call, ok := vfC13Init(mintOn, a)
		if !ok {
			venum.EngineError("C13 harness: init as %s failed", A)
			return
		}
		if cache == "warmA" || cache == "warmAB" {
			if r := vfC13Exchange(h, a, cur, call); r.status != 200 || r.pan != nil {
				venum.EngineError("C13 harness: A's own continuation failed: %d %s", r.status, r.errs)
				return
			}
		}
		if cache == "warmB" || cache == "warmAB" {
			bc, bk, ok := vfC13Init(h, b)
			if !ok {
				venum.EngineError("C13 harness: B's own init failed")
				return
			}
			if r := vfC13Exchange(h, b, bc, bk); r.status != 200 || r.pan != nil {
				venum.EngineError("C13 harness: B's own continuation failed: %d %s", r.status, r.errs)
				return
			}
		}
		if kind != "stream" {
			own, err := h.openCursorToken([]byte(cur), A.auth())
			if err != nil {
				venum.EngineError("C13 harness: cannot open A's cursor as A: %v", err)
				return
			}
			forge := vfC13Server(ids, true, false)
			if kind == "cursor" {
				tok, err := forge.packCallToken(own.CallID, vfOutSchema, B.auth(), vfC13StreamID)
				if err != nil {
					venum.EngineError("C13 harness: pack call token: %v", err)
					return
				}
				call = string(tok)
			} else {
				tok, err := forge.packCursorTokenFor(own.CallID, "ex", &VfC13Exch{Owner: a}, B.auth())
				if err != nil {
					venum.EngineError("C13 harness: pack cursor token: %v", err)
					return
				}
				cur = string(tok)
			}
		}

		vfResetEvents()
		r := vfC13Exchange(h, b, cur, call)
		accepted := len(vfEvents) > 0
		rel := vfC13Rel(A, B)
		x.Outcome("rel=%s kind=%s accepted=%v status=%d panic=%v errs=%s events=%v", rel, kind, accepted, r.status, r.pan != nil, r.errs, vfEventStrings())
		x.Note("mint as %s, present as %s, kind=%s cache=%s -> accepted=%v status=%d errs=%s events=%v", A, B, kind, cache, accepted, r.status, r.errs, vfEventStrings())
		cls := "C13:" + kind
		// Signatures separate the path that consults the presented call token
		// (cache disabled / cold / warmed only by the presenter) from the path
		// where the minter has warmed the presenting server's cache.
		cachePath := "call-token-consulted"
		if cache == "warmA" || cache == "warmAB" {
			cachePath = "cache-warmed-by-minter"
		}
		if r.pan != nil {
			x.Failf(cls+":panic:"+rel, "panic escaped ServeHTTP: %v", r.pan)
			return
		}
		switch {
		case a == b && !accepted:
			x.Failf(cls+":same-identity-refused:"+cachePath, "%s presenting its own %s token(s) was refused (cache=%s): status=%d %s", A, kind, cache, r.status, r.errs)
		case a != b && accepted:
			x.Failf(cls+":cross-identity-accepted:"+rel+":"+cachePath, "token(s) minted for %s accepted from %s (kind=%s, cache=%s): status=%d events=%v", A, B, kind, cache, r.status, vfEventStrings())
		case a != b && (r.status < 400 || r.status > 499):
			x.Failf(cls+":refusal-not-a-client-error:"+rel, "minted for %s, presented by %s: status=%d %s", A, B, r.status, r.errs)
		}
	})

	// ---- 2. sticky-session tokens across identities -----------------------------
	//
	// A opens a session (unary "open" with VGI-Session-Accept: true); B presents
	// A's VGI-Session token on each sticky-aware route. "accepted" means B's
	// request saw or affected A's session state.
	venum.Explore(t, venum.Cfg{Name: "sticky-token-identity", Shardable: true}, func(x *venum.X) {
		a := x.Choose(n, "mint-as")
		b := x.Choose(n, "present-as")
		route := x.Pick("route", "unary", "stream-init", "stream-exchange", "delete")
		prior := x.Pick("prior-use", "none", "A-resumed", "B-opened", "both")
		A, B := ids[a], ids[b]

		vfResetEvents()
		h := vfC13Server(ids, false, true)
		defer vfC13Stop(h)
		ro := vfC13Post(h, a, "/open", vfXReq("open", int64(a)), stickySessionAcceptHeader, "true")
		tok := ro.hdr.Get(stickySessionHeader)
		if ro.pan != nil || ro.status != 200 || tok == "" {
			venum.EngineError("C13 harness: open session as %s failed: status=%d errs=%s", A, ro.status, ro.errs)
			return
		}
		if prior == "A-resumed" || prior == "both" {
			vfResetEvents()
			vfC13Post(h, a, "/who", vfXReq("who", 0), stickySessionHeader, tok)
			if len(vfEvents) != 1 || vfEvents[0].Input != fmt.Sprintf("sess=%d", a) {
				venum.EngineError("C13 harness: A could not resume its own session: %v", vfEventStrings())
				return
			}
		}
		if prior == "B-opened" || prior == "both" {
			rb := vfC13Post(h, b, "/open", vfXReq("open", int64(b)), stickySessionAcceptHeader, "true")
			if rb.hdr.Get(stickySessionHeader) == "" {
				venum.EngineError("C13 harness: B could not open its own session")
				return
			}
		}

		vfResetEvents()
		var r vfC13Resp
		accepted := false
		sawA := func() bool {
			for _, e := range vfEvents {
				if e.Input == fmt.Sprintf("sess=%d", a) || (len(e.Input) > 0 && fmt.Sprintf("owner=%d sess=%d", b, a) == e.Input) {
					return true
				}
			}
			return false
		}
		switch route {
		case "unary":
			r = vfC13Post(h, b, "/who", vfXReq("who", 0), stickySessionHeader, tok)
			accepted = sawA()
		case "stream-init":
			r = vfC13Post(h, b, "/ex/init", vfXReq("ex", int64(b)), stickySessionHeader, tok)
			accepted = sawA()
		case "stream-exchange":
			bc, bk, ok := vfC13Init(h, b)
			if !ok {
				venum.EngineError("C13 harness: B's own init failed")
				return
			}
			vfResetEvents()
			r = vfC13Exchange(h, b, bc, bk, stickySessionHeader, tok)
			accepted = sawA()
		case "delete":
			rec, pan := vfHTTP(h, "DELETE", "/__session__", nil, "X-Vf-Id", strconv.Itoa(b), stickySessionHeader, tok)
			r = vfC13Resp{status: rec.Code, pan: pan, hdr: rec.Header()}
			// Did B's DELETE destroy A's session? Ask as A.
			vfResetEvents()
			vfC13Post(h, a, "/who", vfXReq("who", 0), stickySessionHeader, tok)
			aliveForA := len(vfEvents) == 1 && vfEvents[0].Input == fmt.Sprintf("sess=%d", a)
			accepted = !aliveForA || rec.Code == http.StatusNoContent
			x.Outcome("delete-status=%d alive-for-A-after=%v", rec.Code, aliveForA)
		}
		rel := vfC13Rel(A, B)
		x.Outcome("rel=%s route=%s accepted=%v status=%d rpcerr=%q panic=%v errs=%s", rel, route, accepted, r.status, r.rpcErr, r.pan != nil, r.errs)
		x.Note("session opened by %s, presented by %s on %s (prior=%s) -> accepted=%v status=%d errs=%s events=%v", A, B, route, prior, accepted, r.status, r.errs, vfEventStrings())
		cls := "C13:sticky:" + route
		if r.pan != nil {
			x.Failf(cls+":panic:"+rel, "panic escaped ServeHTTP: %v", r.pan)
			return
		}
		switch {
		case a == b && !accepted:
			x.Failf(cls+":same-identity-refused", "%s presenting its own session token was refused (prior use: %s): status=%d %s", A, prior, r.status, r.errs)
		case a != b && accepted:
			x.Failf(cls+":cross-identity-accepted:"+rel, "session token minted for %s accepted from %s on %s (prior use: %s): status=%d events=%v", A, B, route, prior, r.status, vfEventStrings())
		}
	})

	// ---- 2b. identities whose textual renderings collide ---------------------------
	//
	// Pairs of DIFFERENT identities whose domain and principal concatenate to the
	// same string (plainly, or around a separator character a memo / cache key
	// might use), in both orders of first use. Any identity-keyed state that is
	// process-wide (package level) would survive from one execution to the next,
	// so every execution derives its identities from a counter: no identity string
	// is ever seen by two executions (or by an execution and its confirmation
	// re-runs), and the counter value never enters an outcome or a signature.
	type shape struct {
		name, family string
		mk           func(u string) (vfC13Id, vfC13Id)
	}
	sepShape := func(label, sep string) shape {
		return shape{"split-around-" + label, "separator-" + label, func(u string) (vfC13Id, vfC13Id) {
			return vfC13Id{domain: u + "a" + sep + "b", principal: "c"}, vfC13Id{domain: u + "a", principal: "b" + sep + "c"}
		}}
	}
	shapes := []shape{
		{"ab|c-vs-a|bc", "concatenation", func(u string) (vfC13Id, vfC13Id) {
			return vfC13Id{domain: u + "ab", principal: "c"}, vfC13Id{domain: u + "a", principal: "bc"}
		}},
		{"bearer|empty-vs-empty|bearer", "concatenation", func(u string) (vfC13Id, vfC13Id) {
			return vfC13Id{domain: u + "bearer", principal: ""}, vfC13Id{domain: "", principal: u + "bearer"}
		}},
		{"long-principal-vs-long-domain", "concatenation", func(u string) (vfC13Id, vfC13Id) {
			return vfC13Id{domain: u, principal: "alice@example.com"}, vfC13Id{domain: u + "alice@example", principal: ".com"}
		}},
		{"nul-in-principal", "concatenation", func(u string) (vfC13Id, vfC13Id) {
			return vfC13Id{domain: u, principal: "\x00z"}, vfC13Id{domain: "", principal: u + "\x00z"}
		}},
		sepShape("colon", ":"), sepShape("slash", "/"), sepShape("pipe", "|"), sepShape("space", " "), sepShape("at", "@"),
	}
	// Identities that a normalising comparison would equate: letter case
	// (ASCII and the Unicode simple folds), surrounding whitespace, Unicode
	// composition, a trailing dot. Domains and principals are opaque,
	// operator-chosen strings; "Corp" and "corp" are two authenticators.
	norm := func(label, family string, a, b vfC13Id) shape {
		return shape{label, family, func(u string) (vfC13Id, vfC13Id) {
			x, y := a, b
			// the per-execution tag goes in front of the part that is equal in both
			if x.domain == y.domain {
				x.domain, y.domain = u+x.domain, u+y.domain
			} else {
				x.principal, y.principal = u+x.principal, u+y.principal
			}
			return x, y
		}}
	}
	shapes = append(shapes,
		norm("domain-Corp-vs-corp", "normalised-domain-case", vfC13Id{domain: "Corp", principal: "alice"}, vfC13Id{domain: "corp", principal: "alice"}),
		norm("domain-BEARER-vs-Bearer", "normalised-domain-case", vfC13Id{domain: "BEARER", principal: "alice"}, vfC13Id{domain: "Bearer", principal: "alice"}),
		norm("domain-kelvin-sign-vs-k", "normalised-domain-case", vfC13Id{domain: "\u212aerberos", principal: "alice"}, vfC13Id{domain: "kerberos", principal: "alice"}),
		norm("principal-Alice-vs-alice", "normalised-principal-case", vfC13Id{domain: "corp", principal: "Alice@Example.COM"}, vfC13Id{domain: "corp", principal: "alice@example.com"}),
		norm("principal-trailing-space", "normalised-whitespace", vfC13Id{domain: "corp", principal: "alice "}, vfC13Id{domain: "corp", principal: "alice"}),
		norm("principal-leading-space", "normalised-whitespace", vfC13Id{domain: "corp", principal: " alice"}, vfC13Id{domain: "corp", principal: "alice"}),
		norm("domain-trailing-space", "normalised-whitespace", vfC13Id{domain: "corp ", principal: "alice"}, vfC13Id{domain: "corp", principal: "alice"}),
		norm("principal-nfc-vs-nfd", "normalised-unicode", vfC13Id{domain: "corp", principal: "caf\u00e9"}, vfC13Id{domain: "corp", principal: "cafe\u0301"}),
		norm("domain-nfc-vs-nfd", "normalised-unicode", vfC13Id{domain: "caf\u00e9", principal: "alice"}, vfC13Id{domain: "cafe\u0301", principal: "alice"}),
		norm("principal-trailing-dot", "normalised-trailing-dot", vfC13Id{domain: "corp", principal: "alice.example.com."}, vfC13Id{domain: "corp", principal: "alice.example.com"}),
		norm("domain-trailing-dot", "normalised-trailing-dot", vfC13Id{domain: "corp.example.", principal: "alice"}, vfC13Id{domain: "corp.example", principal: "alice"}),
	)
	// Long identities (SPIFFE ids, service-account names, long OIDC subjects) that
	// agree everywhere except near one end, or where one is a prefix of the other:
	// any rendering that is clamped, windowed or length-limited conflates them.
	// n is the length of the shared part; the thresholds sit around the usual
	// clamp sizes.
	longLens := venum.QT([]int{100, 300, 5000},
		[]int{16, 31, 32, 33, 63, 64, 65, 100, 127, 128, 129, 255, 256, 257, 300, 1023, 1024, 1025, 4096, 5000, 70000})
	for _, n := range longLens {
		n := n
		fill := func(u string) string { // n bytes, starts with the per-execution tag
			b := []byte(u)
			for len(b) < n {
				b = append(b, "spiffe://cluster.local/ns/prod/sa/"[len(b)%34])
			}
			return string(b[:n])
		}
		shapes = append(shapes,
			shape{fmt.Sprintf("principals-share-first-%d-bytes", n), "long-common-prefix", func(u string) (vfC13Id, vfC13Id) {
				return vfC13Id{domain: "spiffe", principal: fill(u) + "a"}, vfC13Id{domain: "spiffe", principal: fill(u) + "b"}
			}},
			shape{fmt.Sprintf("principal-is-%d-byte-prefix-of-other", n), "long-prefix-of-other", func(u string) (vfC13Id, vfC13Id) {
				return vfC13Id{domain: "spiffe", principal: fill(u)}, vfC13Id{domain: "spiffe", principal: fill(u) + "x"}
			}},
			shape{fmt.Sprintf("principals-share-last-%d-bytes", n), "long-common-suffix", func(u string) (vfC13Id, vfC13Id) {
				return vfC13Id{domain: "spiffe", principal: "a" + fill(u)}, vfC13Id{domain: "spiffe", principal: "b" + fill(u)}
			}},
			shape{fmt.Sprintf("domains-share-first-%d-bytes", n), "long-domain-common-prefix", func(u string) (vfC13Id, vfC13Id) {
				return vfC13Id{domain: fill(u) + "a", principal: "svc"}, vfC13Id{domain: fill(u) + "b", principal: "svc"}
			}},
			shape{fmt.Sprintf("same-%d-byte-principal-other-short-domain", n), "long-principal-other-domain", func(u string) (vfC13Id, vfC13Id) {
				return vfC13Id{domain: "jwt", principal: fill(u)}, vfC13Id{domain: "mtls", principal: fill(u)}
			}},
		)
	}
	venum.Explore(t, venum.Cfg{Name: "colliding-identity-histories", Shardable: true}, func(x *venum.X) {
		sh := shapes[x.Choose(len(shapes), "shape")]
		swap := x.Bool("swap-roles")
		history := x.Pick("first-use", "minter-first", "presenter-first-same-server", "presenter-first-other-server")
		kind := x.Pick("kind", "stream", "cursor", "call", "sticky")
		cacheOff := x.Bool("call-cache-off")
		self := x.Bool("control-present-as-minter")

		vfC13Uniq++
		u := fmt.Sprintf("u%dx", vfC13Uniq)
		A, B := sh.mk(u)
		if swap {
			A, B = B, A
		}
		pair := []vfC13Id{A, B}
		const a, b = 0, 1
		present := b
		if self {
			present = a
		}

		vfResetEvents()
		h := vfC13Server(pair, cacheOff, true)
		defer vfC13Stop(h)
		useAsB := func(on *HttpServer) bool {
			bc, bk, ok := vfC13Init(on, b)
			if !ok {
				return false
			}
			r := vfC13Exchange(on, b, bc, bk)
			return r.status == 200 && r.pan == nil
		}
		switch history {
		case "presenter-first-same-server":
			if !useAsB(h) {
				venum.EngineError("C13 harness: presenter's own stream failed")
				return
			}
		case "presenter-first-other-server":
			other := vfC13Server(pair, false, false)
			if !useAsB(other) {
				venum.EngineError("C13 harness: presenter's own stream failed (other server)")
				return
			}
		}

		var r vfC13Resp
		accepted := false
		if kind == "sticky" {
			ro := vfC13Post(h, a, "/open", vfXReq("open", int64(a)), stickySessionAcceptHeader, "true")
			tok := ro.hdr.Get(stickySessionHeader)
			if tok == "" {
				venum.EngineError("C13 harness: open session failed: %d %s", ro.status, ro.errs)
				return
			}
			vfResetEvents()
			r = vfC13Post(h, present, "/who", vfXReq("who", 0), stickySessionHeader, tok)
			accepted = len(vfEvents) == 1 && vfEvents[0].Input == fmt.Sprintf("sess=%d", a)
		} else {
			cur, call, ok := vfC13Init(h, a)
			if !ok {
				venum.EngineError("C13 harness: init as minter failed")
				return
			}
			if kind != "stream" {
				own, err := h.openCursorToken([]byte(cur), A.auth())
				if err != nil {
					venum.EngineError("C13 harness: cannot open minter's cursor as minter: %v", err)
					return
				}
				forge := vfC13Server(pair, true, false)
				if kind == "cursor" {
					tok, _ := forge.packCallToken(own.CallID, vfOutSchema, pair[present].auth(), vfC13StreamID)
					call = string(tok)
				} else {
					tok, _ := forge.packCursorTokenFor(own.CallID, "ex", &VfC13Exch{Owner: a}, pair[present].auth())
					cur = string(tok)
				}
			}
			vfResetEvents()
			r = vfC13Exchange(h, present, cur, call)
			accepted = len(vfEvents) > 0
		}
		x.Outcome("self=%v kind=%s accepted=%v status=%d rpcerr=%q panic=%v", self, kind, accepted, r.status, r.rpcErr, r.pan != nil)
		x.Note("shape %s (family %s), swap=%v, first use: %s, kind=%s, cache-off=%v, present-as-minter=%v -> accepted=%v status=%d errs=%s",
			sh.name, sh.family, swap, history, kind, cacheOff, self, accepted, r.status, r.errs)
		cls := "C13:collision:" + sh.family + ":" + kind
		switch {
		case r.pan != nil:
			x.Failf(cls+":panic", "panic escaped ServeHTTP: %v", r.pan)
		case self && !accepted:
			x.Failf(cls+":same-identity-refused", "minter presenting its own token(s) was refused (first use: %s): status=%d %s", history, r.status, r.errs)
		case !self && accepted:
			x.Failf(cls+":cross-identity-accepted", "token(s) minted for (domain <u>+%q, principal %q) accepted from a different identity with the same rendering (shape %s, first use: %s, cache-off=%v): status=%d",
				vfC13Short(strings.TrimPrefix(A.domain, u)), vfC13Short(strings.TrimPrefix(A.principal, u)), sh.name, history, cacheOff, r.status)
		case !self && kind != "sticky" && (r.status < 400 || r.status > 499):
			x.Failf(cls+":refusal-not-a-client-error", "status=%d %s", r.status, r.errs)
		}
	})

	// ---- 3. kind confusion for one identity ------------------------------------------
	//
	// A token of kind K1 is presented in the slot of kind K2 by the SAME identity:
	// verbatim, re-encoded into the slot's text encoding, and re-encoded with the
	// version byte rewritten to the slot's expected version.
	kinds := []string{"cursor", "call", "session"}
	venum.Explore(t, venum.Cfg{Name: "kind-confusion", Shardable: true}, func(x *venum.X) {
		who := x.Choose(n, "identity")
		k1 := x.Choose(3, "token-kind")
		k2 := x.Choose(3, "slot-kind")
		tf := x.Pick("transform", "verbatim", "slot-encoding", "slot-encoding+slot-version")
		I := ids[who]

		vfResetEvents()
		h := vfC13Server(ids, true, true) // cache off: the call slot is always consulted
		defer vfC13Stop(h)
		cur, call, ok := vfC13Init(h, who)
		if !ok {
			venum.EngineError("C13 harness: init as %s failed", I)
			return
		}
		ro := vfC13Post(h, who, "/open", vfXReq("open", int64(who)), stickySessionAcceptHeader, "true")
		sess := ro.hdr.Get(stickySessionHeader)
		if sess == "" {
			venum.EngineError("C13 harness: open session as %s failed", I)
			return
		}
		var raw []byte
		var text string
		switch k1 {
		case 0:
			text = cur
			raw, _ = base64.StdEncoding.DecodeString(cur)
		case 1:
			text = call
			raw, _ = base64.StdEncoding.DecodeString(call)
		case 2:
			text = sess
			raw, _ = base64.RawURLEncoding.DecodeString(sess)
		}
		if len(raw) < 41 {
			venum.EngineError("C13 harness: cannot decode minted %s token", kinds[k1])
			return
		}
		if tf != "verbatim" {
			mut := append([]byte{}, raw...)
			if tf == "slot-encoding+slot-version" {
				mut[0] = []byte{cursorTokenVersion, callTokenVersion, sessionTokenVersion}[k2]
			}
			if k2 == 2 {
				text = base64.RawURLEncoding.EncodeToString(mut)
			} else {
				text = base64.StdEncoding.EncodeToString(mut)
			}
		}
		vfResetEvents()
		var r vfC13Resp
		accepted := false
		switch k2 {
		case 0:
			r = vfC13Exchange(h, who, text, call)
			accepted = len(vfEvents) > 0
		case 1:
			r = vfC13Exchange(h, who, cur, text)
			accepted = len(vfEvents) > 0
		case 2:
			r = vfC13Post(h, who, "/who", vfXReq("who", 0), stickySessionHeader, text)
			accepted = len(vfEvents) == 1 && vfEvents[0].Input == fmt.Sprintf("sess=%d", who)
		}
		// Error texts of cross-kind refusals can depend on the wall clock (the
		// first plaintext byte of a session token is a timestamp byte), so only
		// the verdict and the status enter the outcome.
		x.Outcome("%s-as-%s %s accepted=%v status=%d panic=%v", kinds[k1], kinds[k2], tf, accepted, r.status, r.pan != nil)
		x.Note("%s: %s token in %s slot (%s) -> accepted=%v status=%d errs=%s events=%v", I, kinds[k1], kinds[k2], tf, accepted, r.status, r.errs, vfEventStrings())
		cls := fmt.Sprintf("C13:kind:%s-as-%s:%s", kinds[k1], kinds[k2], tf)
		if r.pan != nil {
			x.Failf(cls+":panic", "panic escaped ServeHTTP: %v", r.pan)
			return
		}
		if k1 == k2 {
			if tf == "verbatim" && !accepted {
				x.Failf(cls+":own-kind-refused", "%s: a verbatim %s token was refused in its own slot: status=%d %s", I, kinds[k1], r.status, r.errs)
			}
			return
		}
		if accepted {
			x.Failf(cls+":accepted", "%s: %s token accepted in the %s slot: status=%d events=%v", I, kinds[k1], kinds[k2], r.status, vfEventStrings())
		} else if k2 != 2 && (r.status < 400 || r.status > 499) {
			x.Failf(cls+":refusal-not-a-client-error", "%s: status=%d %s", I, r.status, r.errs)
		}
	})
}
