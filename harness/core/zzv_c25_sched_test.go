//go:build verif

package vgirpc

import (
	"fmt"
	"net/http"
	"net/http/httptest"
	"testing"
	"time"

	"github.com/Query-farm/vgi-rpc-go/vgirpc/internal/verif/venum"
	"github.com/Query-farm/vgi-rpc-go/vgirpc/internal/verif/vsched"
)

// C25 (concurrency clause) — 2-3 threads present proofs through the real
// ProofAuthenticate gate (rewritten sources: the nonce cache's mutex is a
// scheduling point). For every schedule, each distinct proof is admitted to
// the inner authenticator at most once, and exactly once if it was presented.
func TestVerif_C25_Sched(t *testing.T) {
	venum.Begin("C25")
	defer venum.Finish(t)
	nThreads := venum.QT(2, 3)
	venum.Explore(t, venum.Cfg{Name: "concurrent-presentations", PreemptBound: venum.QT(3, 4), Shardable: true, CheckDeterminism: true}, func(x *venum.X) {
		capacity := []int{0, 1, 2}[x.Choose(3, "capacity")]
		which := make([]int, nThreads) // which proof each thread presents (0 or 1)
		for i := range which {
			which[i] = x.Choose(2, fmt.Sprintf("proof%d", i))
		}
		secret := []byte("0123456789abcdef0123456789abcdef")
		now := time.Unix(1_700_000_000, 0)
		inner := 0
		innerBy := map[string]int{}
		cfg := ProofConfig{Mode: ProofModeRequire, OriginID: "origin-1", SkewSeconds: 30, ReplayCapacity: capacity,
			Secrets: map[string]ProofSecret{"k1": {Secret: secret, Label: "proxy"}},
			Now:     func() time.Time { return now }}
		gate, err := ProofAuthenticate(cfg, func(r *http.Request) (*AuthContext, error) {
			inner++
			innerBy[r.Header.Get("X-Which")]++
			return Anonymous(), nil
		})
		if err != nil {
			venum.EngineError("ProofAuthenticate: %v", err)
			return
		}
		proofs := make([]string, 2)
		for i := range proofs {
			proofs[i], err = MintProof(secret, "k1", "origin-1", now.Unix(), fmt.Sprintf("nonce%daaaaaaaaaaaaaaaa", i))
			if err != nil {
				venum.EngineError("MintProof: %v", err)
				return
			}
		}
		accepted := make([]bool, nThreads)
		res := vsched.Run(x, vsched.Opts{MaxSteps: 2000}, func() {
			var ts []*vsched.Thread
			for i := 0; i < nThreads; i++ {
				i := i
				ts = append(ts, vsched.GoNamed("present", func() {
					r := httptest.NewRequest("POST", "/m", nil)
					r.Header.Set(ProofHeader, proofs[which[i]])
					r.Header.Set("X-Which", fmt.Sprint(which[i]))
					_, e := gate(r)
					accepted[i] = e == nil
				}))
			}
			vsched.Join(ts...)
		})
		if res.Verdict != "" {
			x.Failf("C25:concurrent:"+res.Verdict, "%v", res.Blocked)
			return
		}
		presented := map[int]int{}
		acc := map[int]int{}
		for i := range which {
			presented[which[i]]++
			if accepted[i] {
				acc[which[i]]++
			}
		}
		for p, n := range presented {
			// with capacity 1 and two distinct proofs the statement allows a
			// proof to be forgotten once MORE distinct proofs than the capacity
			// were admitted since; one other admission does not exceed capacity 1.
			// (lenient reading, as in the history space: a capacity-N cache may
			// forget a proof once N OTHER distinct proofs were admitted)
			others := len(presented) - 1
			if acc[p] > 1 && (capacity == 0 || others < capacity) {
				x.Failf(fmt.Sprintf("C25:concurrent:replay-accepted:cap=%d", capacity), "proof %d presented %d times concurrently was accepted %d times (capacity %d)", p, n, acc[p], capacity)
			}
			if acc[p] == 0 {
				x.Failf(fmt.Sprintf("C25:concurrent:valid-proof-never-accepted:cap=%d", capacity), "proof %d presented %d times was never accepted", p, n)
			}
			if innerBy[fmt.Sprint(p)] != acc[p] {
				x.Failf("C25:concurrent:inner-count", "inner authenticator ran %d times for proof %d but %d presentations were accepted", innerBy[fmt.Sprint(p)], p, acc[p])
			}
		}
		x.Outcome("cap=%d which=%v accepted=%v", capacity, which, accepted)
	})
}
