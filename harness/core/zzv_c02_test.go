//go:build verif

package vgirpc

import (
	"bytes"
	"context"
	"errors"
	"fmt"
	"io"
	"log/slog"
	"net"
	"strings"
	"testing"
	"time"

	"github.com/apache/arrow-go/v18/arrow"

	"github.com/Query-farm/vgi-rpc-go/vgirpc/internal/verif/venum"
)

// C02 — a pipe/socket session stays in frame after every request, good or bad.
//
// Space: every history of <=2 (quick) / <=3 (thorough) calls over the call
// alphabet below, on each of the three connection serve loops
// (ServeWithContext, serveUnixConn, serveTcpConn).  A history is ONE input byte
// string: the documented pipe client writes its request stream and, for stream
// calls, its complete input stream before it reads.
//
// Oracle (differential): the output parses as complete IPC streams; call i owns
// exactly as many of them as the same call gets alone on a fresh connection
// (1, or 2 when a header is returned), and, rendered, they are byte-for-byte the
// streams the same call produces alone; the user code invoked is the
// concatenation of what each call invokes alone; all input is consumed and
// nothing follows the last response.  Histories of length 1 are checked against
// the statement directly (stream count, exactly one exception batch iff the call
// is a failing one).

// vfC02Call is one letter of the call alphabet.
type vfC02Call struct {
	name    string
	class   string        // coarse class used in signatures
	wire    func() []byte // request stream (+ the client's whole input stream)
	streams int           // response streams the statement promises (2 = header + data)
	fails   bool          // the server answers with an error (exactly one exception batch)
	cancel  bool          // client cancel: no exception expected, stream just ends
	errOpt  bool          // the statement does not say whether an exception batch is written (failing cancel hook)
}

// vfC02BadState implements neither ProducerState nor ExchangeState.
type vfC02BadState struct{ N int }

// vfC02CancelProd / vfC02CancelExch are scripted states whose cancel hook fails
// (the common VfProducer/VfExchanger hooks always return nil).
type vfC02CancelProd struct {
	S    VfScript
	Mode string // "error" | "panic"
}

func (p *vfC02CancelProd) Produce(ctx context.Context, out *OutputCollector, cc *CallContext) error {
	return p.S.run("produce", nil, out, cc)
}
func (p *vfC02CancelProd) OnCancel(ctx context.Context, cc *CallContext) error {
	return vfC02FailingCancel(p.Mode, cc, p.S.Pos)
}

type vfC02CancelExch struct {
	S    VfScript
	Mode string
}

func (p *vfC02CancelExch) Exchange(ctx context.Context, in arrow.RecordBatch, out *OutputCollector, cc *CallContext) error {
	return p.S.run("exchange", in, out, cc)
}
func (p *vfC02CancelExch) OnCancel(ctx context.Context, cc *CallContext) error {
	return vfC02FailingCancel(p.Mode, cc, p.S.Pos)
}

// vfC02Texts is the alphabet of handler error TEXTS: an ordinary one and the
// texts an application error has when the handler itself talks to a database /
// upstream service whose connection died. What a handler's error says must not
// change what happens to the session.
var vfC02Texts = []string{"ordinary failure", "upstream: unexpected EOF", "upstream write: broken pipe", "read tcp 10.0.0.1:5432: connection reset by peer"}

// vfC02TextProd / vfC02TextExch emit `After` turns and then fail with Text
// (returned as a plain error, or panicked when Panic is set).
type vfC02TextProd struct {
	Text  string
	After int
	Panic bool
	N     int
}

func (p *vfC02TextProd) Produce(ctx context.Context, out *OutputCollector, cc *CallContext) error {
	vfEvents = append(vfEvents, VfEvent{What: "produce", Method: cc.Method, Pos: p.N})
	p.N++
	if p.N <= p.After {
		return out.Emit(vfI64Batch("v", int64(p.N)))
	}
	if p.Panic {
		panic(p.Text)
	}
	return errors.New(p.Text)
}

type vfC02TextExch struct {
	Text  string
	After int
	N     int
}

func (p *vfC02TextExch) Exchange(ctx context.Context, in arrow.RecordBatch, out *OutputCollector, cc *CallContext) error {
	vfEvents = append(vfEvents, VfEvent{What: "exchange", Method: cc.Method, Pos: p.N})
	p.N++
	if p.N <= p.After {
		return out.Emit(vfI64Batch("v", int64(p.N)))
	}
	return errors.New(p.Text)
}

func vfC02FailingCancel(mode string, cc *CallContext, pos int) error {
	vfEvents = append(vfEvents, VfEvent{What: "cancel", Method: cc.Method, Pos: pos})
	if mode == "panic" {
		panic("cancel hook boom")
	}
	return &RpcError{Type: "RuntimeError", Message: "cancel hook failed"}
}

func vfC02Server() *Server {
	s := NewServer()
	ev := func(what string, cc *CallContext, p VfXParams) {
		vfEvents = append(vfEvents, VfEvent{What: what, Method: cc.Method, Input: fmt.Sprint(p.X)})
	}
	Unary(s, "u_ok", func(ctx context.Context, cc *CallContext, p VfXParams) (int64, error) {
		ev("unary", cc, p)
		cc.ClientLog(LogInfo, "hello from u_ok")
		return p.X * 2, nil
	})
	UnaryVoid(s, "u_void", func(ctx context.Context, cc *CallContext, p VfXParams) error {
		ev("unary", cc, p)
		return nil
	})
	Unary(s, "u_err", func(ctx context.Context, cc *CallContext, p VfXParams) (int64, error) {
		ev("unary", cc, p)
		cc.ClientLog(LogWarn, "about to fail")
		return 0, &RpcError{Type: "ValueError", Message: "bad value"}
	})
	Unary(s, "u_panic", func(ctx context.Context, cc *CallContext, p VfXParams) (string, error) {
		ev("unary", cc, p)
		panic("unary boom")
	})
	prod := func(name string, hdr bool, turns ...VfTurn) {
		h := vfInitHandler(func(p VfXParams) (*StreamResult, error) {
			sr := &StreamResult{OutputSchema: vfOutSchema,
				State: &VfProducer{S: VfScript{Name: name, Turns: append([]VfTurn(nil), turns...), Base: p.X * 1000}}}
			if hdr {
				sr.Header = VfHeader{Title: "hdr-" + name}
			}
			return sr, nil
		})
		if hdr {
			ProducerWithHeader(s, name, vfOutSchema, VfHeader{}.ArrowSchema(), h)
		} else {
			Producer(s, name, vfOutSchema, h)
		}
	}
	exch := func(name string, hdr bool, turns ...VfTurn) {
		h := vfInitHandler(func(p VfXParams) (*StreamResult, error) {
			sr := &StreamResult{OutputSchema: vfOutSchema,
				State: &VfExchanger{S: VfScript{Name: name, Turns: append([]VfTurn(nil), turns...), Base: p.X * 1000}}}
			if hdr {
				sr.Header = VfHeader{Title: "hdr-" + name}
			}
			return sr, nil
		})
		if hdr {
			ExchangeWithHeader(s, name, vfOutSchema, vfInSchema, VfHeader{}.ArrowSchema(), h)
		} else {
			Exchange(s, name, vfOutSchema, vfInSchema, h)
		}
	}
	emit := VfTurn{Emit: 1, Rows: 1}
	emitLog := VfTurn{Emit: 1, Rows: 2, Logs: []string{"INFO:turn log"}}
	prod("p_two", false, emit, emitLog, VfTurn{Finish: true})
	prod("p_err1", false, emit, VfTurn{Fail: "rpc:ValueError"})
	prod("p_panic0", false, VfTurn{Fail: "panic"})
	prod("p_noemit0", false, VfTurn{})
	prod("p_twice1", false, emit, VfTurn{Emit: 2, Rows: 1})
	prod("p_hdr", true, emit, VfTurn{Finish: true})
	exch("e_echo", false, emit, emitLog, emit, emit)
	exch("e_err1", false, emit, VfTurn{Fail: "plain"})
	exch("e_finish0", false, VfTurn{Finish: true})
	exch("e_noemit1", false, emit, VfTurn{})
	exch("e_hdr", true, emit, emit)
	for _, mode := range []string{"error", "panic"} {
		mode := mode
		Producer(s, "pc_"+mode, vfOutSchema, vfInitHandler(func(p VfXParams) (*StreamResult, error) {
			return &StreamResult{OutputSchema: vfOutSchema, State: &vfC02CancelProd{Mode: mode,
				S: VfScript{Name: "pc_" + mode, Turns: []VfTurn{emit, emitLog, emit, {Finish: true}}, Base: p.X * 1000}}}, nil
		}))
		Exchange(s, "ec_"+mode, vfOutSchema, vfInSchema, vfInitHandler(func(p VfXParams) (*StreamResult, error) {
			return &StreamResult{OutputSchema: vfOutSchema, State: &vfC02CancelExch{Mode: mode,
				S: VfScript{Name: "ec_" + mode, Turns: []VfTurn{emit, emitLog, emit}, Base: p.X * 1000}}}, nil
		}))
	}
	text := func(p VfXParams) string { return vfC02Texts[int(p.X)%len(vfC02Texts)] }
	Unary(s, "t_err", func(ctx context.Context, cc *CallContext, p VfXParams) (int64, error) {
		ev("unary", cc, p)
		return 0, errors.New(text(p))
	})
	Unary(s, "t_rpcerr", func(ctx context.Context, cc *CallContext, p VfXParams) (int64, error) {
		ev("unary", cc, p)
		return 0, &RpcError{Type: "IOError", Message: text(p)}
	})
	UnaryVoid(s, "t_panic", func(ctx context.Context, cc *CallContext, p VfXParams) error {
		ev("unary", cc, p)
		panic(text(p))
	})
	Producer(s, "t_init", vfOutSchema, vfInitHandler(func(p VfXParams) (*StreamResult, error) {
		return nil, errors.New(text(p))
	}))
	Producer(s, "t_prod", vfOutSchema, vfInitHandler(func(p VfXParams) (*StreamResult, error) {
		return &StreamResult{OutputSchema: vfOutSchema, State: &vfC02TextProd{Text: text(p), After: 1}}, nil
	}))
	Producer(s, "t_prodpanic", vfOutSchema, vfInitHandler(func(p VfXParams) (*StreamResult, error) {
		return &StreamResult{OutputSchema: vfOutSchema, State: &vfC02TextProd{Text: text(p), After: 0, Panic: true}}, nil
	}))
	Exchange(s, "t_exch", vfOutSchema, vfInSchema, vfInitHandler(func(p VfXParams) (*StreamResult, error) {
		return &StreamResult{OutputSchema: vfOutSchema, State: &vfC02TextExch{Text: text(p), After: 1}}, nil
	}))
	Producer(s, "i_err", vfOutSchema, vfInitHandler(func(p VfXParams) (*StreamResult, error) {
		return nil, &RpcError{Type: "ValueError", Message: "init refused"}
	}))
	Producer(s, "i_panic", vfOutSchema, vfInitHandler(func(p VfXParams) (*StreamResult, error) {
		panic("init boom")
	}))
	Producer(s, "i_nil", vfOutSchema, vfInitHandler(func(p VfXParams) (*StreamResult, error) {
		return nil, nil
	}))
	Producer(s, "i_badstate", vfOutSchema, vfInitHandler(func(p VfXParams) (*StreamResult, error) {
		return &StreamResult{OutputSchema: vfOutSchema, State: &vfC02BadState{}}, nil
	}))
	Exchange(s, "ie_err", vfOutSchema, vfInSchema, vfInitHandler(func(p VfXParams) (*StreamResult, error) {
		return nil, fmt.Errorf("exchange init refused")
	}))
	ProducerWithHeader(s, "ih_err", vfOutSchema, VfHeader{}.ArrowSchema(), vfInitHandler(func(p VfXParams) (*StreamResult, error) {
		return nil, &RpcError{Type: "ValueError", Message: "header init refused"}
	}))
	DynamicStreamWithHeader(s, "d_bad", VfHeader{}.ArrowSchema(), vfInitHandler(func(p VfXParams) (*StreamResult, error) {
		return &StreamResult{OutputSchema: vfOutSchema, State: &vfC02BadState{}}, nil
	}))
	DynamicStreamWithHeader(s, "d_prod", VfHeader{}.ArrowSchema(), vfInitHandler(func(p VfXParams) (*StreamResult, error) {
		return &StreamResult{OutputSchema: vfOutSchema, Header: VfHeader{Title: "dyn"},
			State: &VfProducer{S: VfScript{Name: "d_prod", Turns: []VfTurn{emit, {Finish: true}}}}}, nil
	}))
	return s
}

func vfC02Cat(parts ...[]byte) []byte {
	var out []byte
	for _, p := range parts {
		out = append(out, p...)
	}
	return out
}

// vfC02Inputs frames an exchange input stream; each spec is "d<val>" (int64
// data batch), "c" (cancel batch).
func vfC02Inputs(schema *arrow.Schema, specs ...string) []byte {
	var bs []arrow.RecordBatch
	for _, sp := range specs {
		switch {
		case sp == "c":
			bs = append(bs, vfEmpty(schema, MetaCancel, "1"))
		default:
			bs = append(bs, vfBatchJSON(schema, sp))
		}
	}
	return vfStreamBytes(schema, bs...)
}

var vfC02I32Schema = arrow.NewSchema([]arrow.Field{{Name: "x", Type: arrow.PrimitiveTypes.Int32}}, nil)
var vfC02StrSchema = arrow.NewSchema([]arrow.Field{{Name: "x", Type: arrow.BinaryTypes.String}}, nil)

type vfC02Site struct {
	name, class string
	wire        func(x int64) []byte
}

var vfC02TextTag = []string{"ordinary", "EOF", "broken-pipe", "connection-reset"}

// vfC02TextSites lists the places a handler error / panic can come from; x
// selects the error text (index into vfC02Texts).
func vfC02TextSites() []vfC02Site {
	in := func(specs ...string) []byte { return vfC02Inputs(vfInSchema, specs...) }
	d := func(v int) string { return fmt.Sprintf(`[{"x":%d}]`, v) }
	return []vfC02Site{
		{"unary-plain-error", "unary-handler-error", func(x int64) []byte { return vfXReq("t_err", x) }},
		{"unary-rpc-error", "unary-handler-error", func(x int64) []byte { return vfXReq("t_rpcerr", x) }},
		{"unary-panic", "unary-panic", func(x int64) []byte { return vfXReq("t_panic", x) }},
		{"init-error", "stream-init-failure", func(x int64) []byte { return vfC02Cat(vfXReq("t_init", x), vfTicks(2)) }},
		{"producer-error@1", "mid-stream-error", func(x int64) []byte { return vfC02Cat(vfXReq("t_prod", x), vfTicks(3)) }},
		{"producer-panic@0", "mid-stream-panic", func(x int64) []byte { return vfC02Cat(vfXReq("t_prodpanic", x), vfTicks(2)) }},
		{"exchange-error@1", "mid-stream-error", func(x int64) []byte { return vfC02Cat(vfXReq("t_exch", x), in(d(1), d(2), d(3))) }},
	}

}

func vfC02TextCall(st vfC02Site, ti int) vfC02Call {
	// the class (used in signatures) only says whether the text looks like a
	// closed transport; the call name keeps the exact text
	tc := ":text=ordinary"
	if ti > 0 {
		tc = ":text-like-closed-transport"
	}
	return vfC02Call{name: st.name + "[text=" + vfC02TextTag[ti] + "]", class: st.class + tc,
		streams: 1, fails: true, wire: func() []byte { return st.wire(int64(ti)) }}
}

func vfC02Alphabet(thorough bool) []vfC02Call {
	ticksWithCancel := func(specs string) []byte { // "t" tick, "c" cancel
		var bs []arrow.RecordBatch
		for _, c := range specs {
			if c == 'c' {
				bs = append(bs, vfEmpty(vfEmptySchema, MetaCancel, "1"))
			} else {
				bs = append(bs, vfEmpty(vfEmptySchema))
			}
		}
		return vfStreamBytes(vfEmptySchema, bs...)
	}
	in := func(specs ...string) []byte { return vfC02Inputs(vfInSchema, specs...) }
	d := func(v int) string { return fmt.Sprintf(`[{"x":%d}]`, v) }
	calls := []vfC02Call{
		// --- unary-shaped requests
		{name: "unary-ok", class: "unary-ok", streams: 1, wire: func() []byte { return vfXReq("u_ok", 7, MetaRequestID, "rid-1") }},
		{name: "unary-void", class: "unary-ok", streams: 1, wire: func() []byte { return vfXReq("u_void", 3) }},
		{name: "unary-handler-error", class: "unary-handler-error", streams: 1, fails: true, wire: func() []byte { return vfXReq("u_err", 1, MetaRequestID, "rid-2") }},
		{name: "unary-panic", class: "unary-panic", streams: 1, fails: true, wire: func() []byte { return vfXReq("u_panic", 1) }},
		{name: "unary-param-mismatch", class: "unary-param-mismatch", streams: 1, fails: true, wire: func() []byte { return vfRequest("u_ok", vfI64Batch("y", 1)) }},
		{name: "unknown-unary-method", class: "unknown-unary-method", streams: 1, fails: true, wire: func() []byte { return vfXReq("no_such_method", 1) }},
		{name: "no-method-key", class: "missing-routing-metadata", streams: 1, fails: true, wire: func() []byte { return vfRequest("\x00none", vfI64Batch("x", 1)) }},
		{name: "wrong-request-version", class: "wrong-request-version", streams: 1, fails: true, wire: func() []byte { return vfXReq("u_ok", 1, MetaRequestVersion, "999") }},
		{name: "zero-row-request", class: "wrong-row-count", streams: 1, fails: true, wire: func() []byte { return vfRequest("u_ok", vfI64Batch("x")) }},
		{name: "two-row-request", class: "wrong-row-count", streams: 1, fails: true, wire: func() []byte { return vfRequest("u_ok", vfI64Batch("x", 1, 2)) }},
		// --- producers
		{name: "producer-0-ticks", class: "producer", streams: 1, wire: func() []byte { return vfC02Cat(vfXReq("p_two", 1), vfTicks(0)) }},
		{name: "producer-1-tick", class: "producer", streams: 1, wire: func() []byte { return vfC02Cat(vfXReq("p_two", 2), vfTicks(1)) }},
		{name: "producer-finishes-early", class: "producer", streams: 1, wire: func() []byte { return vfC02Cat(vfXReq("p_two", 3), vfTicks(4)) }},
		{name: "producer-error@1", class: "mid-stream-error", streams: 1, fails: true, wire: func() []byte { return vfC02Cat(vfXReq("p_err1", 1), vfTicks(3)) }},
		{name: "producer-panic@0", class: "mid-stream-panic", streams: 1, fails: true, wire: func() []byte { return vfC02Cat(vfXReq("p_panic0", 1), vfTicks(2)) }},
		{name: "producer-no-emit@0", class: "contract-violation", streams: 1, fails: true, wire: func() []byte { return vfC02Cat(vfXReq("p_noemit0", 1), vfTicks(2)) }},
		{name: "producer-emit-twice@1", class: "contract-violation", streams: 1, fails: true, wire: func() []byte { return vfC02Cat(vfXReq("p_twice1", 1), vfTicks(3)) }},
		{name: "producer-cancel@1", class: "client-cancel", streams: 1, cancel: true, wire: func() []byte { return vfC02Cat(vfXReq("p_two", 4), ticksWithCancel("tct")) }},
		{name: "producer-with-header", class: "header-stream", streams: 2, wire: func() []byte { return vfC02Cat(vfXReq("p_hdr", 1), vfTicks(3)) }},
		// --- exchanges
		{name: "exchange-0-inputs", class: "exchange", streams: 1, wire: func() []byte { return vfC02Cat(vfXReq("e_echo", 1), in()) }},
		{name: "exchange-2-inputs", class: "exchange", streams: 1, wire: func() []byte { return vfC02Cat(vfXReq("e_echo", 2), in(d(5), d(6))) }},
		{name: "exchange-error@1", class: "mid-stream-error", streams: 1, fails: true, wire: func() []byte { return vfC02Cat(vfXReq("e_err1", 1), in(d(1), d(2), d(3))) }},
		{name: "exchange-finish@0", class: "contract-violation", streams: 1, fails: true, wire: func() []byte { return vfC02Cat(vfXReq("e_finish0", 1), in(d(1), d(2))) }},
		{name: "exchange-uncastable-input", class: "mid-stream-error", streams: 1, fails: true, wire: func() []byte {
			return vfC02Cat(vfXReq("e_echo", 1), vfC02Inputs(vfC02StrSchema, `[{"x":"7"}]`, `[{"x":"abc"}]`, `[{"x":"9"}]`))
		}},
		{name: "exchange-cancel@0", class: "client-cancel", streams: 1, cancel: true, wire: func() []byte { return vfC02Cat(vfXReq("e_echo", 1), in("c", d(4))) }},
		{name: "exchange-with-header", class: "header-stream", streams: 2, wire: func() []byte { return vfC02Cat(vfXReq("e_hdr", 1), in(d(8))) }},
		// --- client cancel on a stream whose cancel hook fails (what the response carries is not
		// stated; that the session stays in frame is)
		{name: "producer-cancel@0-hook-error", class: "client-cancel-hook-fails", streams: 1, cancel: true, errOpt: true, wire: func() []byte { return vfC02Cat(vfXReq("pc_error", 1), ticksWithCancel("ctt")) }},
		{name: "producer-cancel@2-hook-error", class: "client-cancel-hook-fails", streams: 1, cancel: true, errOpt: true, wire: func() []byte { return vfC02Cat(vfXReq("pc_error", 2), ticksWithCancel("ttct")) }},
		{name: "producer-cancel@1-hook-panic", class: "client-cancel-hook-fails", streams: 1, cancel: true, errOpt: true, wire: func() []byte { return vfC02Cat(vfXReq("pc_panic", 1), ticksWithCancel("tct")) }},
		{name: "exchange-cancel@0-hook-error", class: "client-cancel-hook-fails", streams: 1, cancel: true, errOpt: true, wire: func() []byte { return vfC02Cat(vfXReq("ec_error", 1), in("c", d(4))) }},
		{name: "exchange-cancel@1-hook-error", class: "client-cancel-hook-fails", streams: 1, cancel: true, errOpt: true, wire: func() []byte { return vfC02Cat(vfXReq("ec_error", 2), in(d(3), "c", d(4), d(5))) }},
		{name: "exchange-cancel@1-hook-panic", class: "client-cancel-hook-fails", streams: 1, cancel: true, errOpt: true, wire: func() []byte { return vfC02Cat(vfXReq("ec_panic", 1), in(d(3), "c")) }},
		// --- stream-init failures
		{name: "init-error", class: "stream-init-failure", streams: 1, fails: true, wire: func() []byte { return vfC02Cat(vfXReq("i_err", 1), vfTicks(2)) }},
		{name: "init-panic", class: "stream-init-failure", streams: 1, fails: true, wire: func() []byte { return vfC02Cat(vfXReq("i_panic", 1), vfTicks(2)) }},
		{name: "init-nil", class: "stream-init-failure", streams: 1, fails: true, wire: func() []byte { return vfC02Cat(vfXReq("i_nil", 1), vfTicks(2)) }},
		{name: "exchange-init-error", class: "stream-init-failure", streams: 1, fails: true, wire: func() []byte { return vfC02Cat(vfXReq("ie_err", 1), in(d(1), d(2))) }},
		// --- parameter mismatch on a stream call ("parameter mismatch" is in the statement's list)
		{name: "producer-param-mismatch", class: "stream-param-mismatch", streams: 1, fails: true, wire: func() []byte { return vfC02Cat(vfRequest("p_two", vfI64Batch("y", 1)), vfTicks(2)) }},
		{name: "producer-param-mismatch-0-ticks", class: "stream-param-mismatch", streams: 1, fails: true, wire: func() []byte { return vfC02Cat(vfRequest("p_two", vfI64Batch("y", 1)), vfTicks(0)) }},
		{name: "exchange-param-mismatch", class: "stream-param-mismatch", streams: 1, fails: true, wire: func() []byte { return vfC02Cat(vfRequest("e_echo", vfI64Batch("y", 1)), in(d(1))) }},
	}
	// --- error TEXT dimension: failure site x what the error says
	sites := vfC02TextSites()
	for si, st := range sites {
		// the main alphabet carries each site with one transport-looking text
		// (rotating); the full site x text product is the second space
		calls = append(calls, vfC02TextCall(st, 1+si%3))
	}
	if thorough {
		calls = append(calls,
			vfC02Call{name: "exchange-int32-inputs", class: "exchange", streams: 1, wire: func() []byte {
				return vfC02Cat(vfXReq("e_echo", 1), vfC02Inputs(vfC02I32Schema, d(5), d(6)))
			}},
			vfC02Call{name: "exchange-no-emit@1", class: "contract-violation", streams: 1, fails: true, wire: func() []byte { return vfC02Cat(vfXReq("e_noemit1", 1), in(d(1), d(2), d(3))) }},
			vfC02Call{name: "exchange-cancel@1", class: "client-cancel", streams: 1, cancel: true, wire: func() []byte { return vfC02Cat(vfXReq("e_echo", 1), in(d(3), "c", d(4))) }},
			vfC02Call{name: "init-bad-state", class: "stream-init-failure", streams: 1, fails: true, wire: func() []byte { return vfC02Cat(vfXReq("i_badstate", 1), vfTicks(2)) }},
			vfC02Call{name: "header-init-error", class: "stream-init-failure", streams: 1, fails: true, wire: func() []byte { return vfC02Cat(vfXReq("ih_err", 1), vfTicks(1)) }},
			vfC02Call{name: "dynamic-bad-state", class: "stream-init-failure", streams: 1, fails: true, wire: func() []byte { return vfC02Cat(vfXReq("d_bad", 1), vfTicks(1)) }},
			vfC02Call{name: "dynamic-producer-header", class: "header-stream", streams: 2, wire: func() []byte { return vfC02Cat(vfXReq("d_prod", 1), vfTicks(3)) }},
		)
	}
	return calls
}

// vfC02Conn is an in-memory net.Conn: reads come from a fixed byte string in
// chunks of at most `chunk` bytes (a socket may segment arbitrarily), writes
// are collected.  No goroutines, no timing.
type vfC02Conn struct {
	r     *bytes.Reader
	w     bytes.Buffer
	chunk int
}

type vfC02Addr struct{}

func (vfC02Addr) Network() string { return "mem" }
func (vfC02Addr) String() string  { return "mem" }

func (c *vfC02Conn) Read(p []byte) (int, error) {
	if c.chunk > 0 && len(p) > c.chunk {
		p = p[:c.chunk]
	}
	return c.r.Read(p)
}
func (c *vfC02Conn) Write(p []byte) (int, error)        { return c.w.Write(p) }
func (c *vfC02Conn) Close() error                       { return nil }
func (c *vfC02Conn) LocalAddr() net.Addr                { return vfC02Addr{} }
func (c *vfC02Conn) RemoteAddr() net.Addr               { return vfC02Addr{} }
func (c *vfC02Conn) SetDeadline(t time.Time) error      { return nil }
func (c *vfC02Conn) SetReadDeadline(t time.Time) error  { return nil }
func (c *vfC02Conn) SetWriteDeadline(t time.Time) error { return nil }

var vfC02Transports = []string{"pipe", "unix", "tcp"}

// vfC02Serve runs one connection's serve loop over the whole history.
func vfC02Serve(transport string, s *Server, input []byte) (out []byte, unread int, panicked any) {
	switch transport {
	case "pipe":
		return vfServePipe(s, input)
	}
	conn := &vfC02Conn{r: bytes.NewReader(input), chunk: 7}
	if transport == "tcp" {
		conn.chunk = 1
	}
	func() {
		defer func() {
			if rv := recover(); rv != nil {
				panicked = rv
			}
		}()
		if transport == "unix" {
			s.serveUnixConn(context.Background(), conn)
		} else {
			s.serveTcpConn(context.Background(), conn)
		}
	}()
	return conn.w.Bytes(), conn.r.Len(), panicked
}

func vfC02Render(st vfStream) string {
	var b strings.Builder
	b.WriteString(st.SchemaStr)
	for _, bt := range st.Batches {
		fmt.Fprintf(&b, "\n  %s rows=%d meta[%s] %s", bt.Kind, bt.Rows, bt.MetaString(), bt.JSON)
	}
	return b.String()
}

type vfC02Solo struct {
	streams []string // rendered response streams
	events  []string
	nErr    int
	nData   int
	problem string // non-empty: the call alone already misbehaves
}

func vfC02RunSolo(transport string, c vfC02Call) vfC02Solo {
	vfResetEvents()
	out, unread, pan := vfC02Serve(transport, vfC02Server(), c.wire())
	var so vfC02Solo
	so.events = vfEventStrings()
	if pan != nil {
		so.problem = fmt.Sprintf("panic:%v", pan)
		return so
	}
	sts, left, err := vfParseStreams(out)
	if err != nil {
		so.problem = fmt.Sprintf("unparseable:%v (leftover %d)", err, left)
		return so
	}
	for _, st := range sts {
		so.streams = append(so.streams, vfC02Render(st))
		so.nErr += len(st.Errs())
		so.nData += len(st.Data())
	}
	if unread != 0 {
		so.problem = fmt.Sprintf("unread-input:%d bytes", unread)
	}
	return so
}

func TestVerif_C02(t *testing.T) {
	venum.Begin("C02")
	defer venum.Finish(t)
	prev := slog.Default()
	slog.SetDefault(slog.New(slog.NewTextHandler(io.Discard, nil)))
	defer slog.SetDefault(prev)

	alpha := vfC02Alphabet(venum.Thorough())
	maxLen := venum.QT(2, 3)
	n := len(alpha) // the main space draws from alpha[:n]
	venum.SetInfo("alphabet", fmt.Sprint(n))
	// second space: the full (failure site x error text) product, appended after
	// the main alphabet so that both spaces share the reference machinery
	var textCalls []int
	for _, st := range vfC02TextSites() {
		for ti := range vfC02Texts {
			alpha = append(alpha, vfC02TextCall(st, ti))
			textCalls = append(textCalls, len(alpha)-1)
		}
	}
	var followUps []int
	for i, c := range alpha[:n] {
		switch c.name {
		case "unary-ok", "producer-1-tick", "exchange-2-inputs":
			followUps = append(followUps, i)
		}
	}

	// Reference: each call alone on a fresh server and a fresh connection. The
	// result is a pure function of (transport, call); it is computed once.
	solo := map[string]vfC02Solo{}
	soloOf := func(tr string, i int) vfC02Solo {
		k := fmt.Sprintf("%s/%d", tr, i)
		if v, ok := solo[k]; ok {
			return v
		}
		v := vfC02RunSolo(tr, alpha[i])
		solo[k] = v
		return v
	}

	// alone judges one call on its own connection against the statement.
	alone := func(tr string, ci int) (sig, detail string) {
		c := alpha[ci]
		so := soloOf(tr, ci)
		cls := "C02:" + tr + ":alone:" + c.class
		all := strings.Join(so.streams, "\n")
		switch {
		case so.problem != "":
			return cls + ":" + strings.SplitN(so.problem, ":", 2)[0], fmt.Sprintf("call %s alone: %s", c.name, so.problem)
		case len(so.streams) != c.streams:
			return cls + ":stream-count", fmt.Sprintf("call %s alone: %d response streams, the statement promises %d\n%s", c.name, len(so.streams), c.streams, all)
		case c.errOpt && so.nErr <= 1:
			// either reading
		case c.fails && so.nErr != 1:
			return cls + ":exception-count", fmt.Sprintf("call %s alone: %d exception batches, want exactly 1\n%s", c.name, so.nErr, all)
		case !c.fails && so.nErr != 0:
			return cls + ":unexpected-exception", fmt.Sprintf("call %s alone: %d exception batches, want none\n%s", c.name, so.nErr, all)
		}
		return "", ""
	}

	// together serves hist (len>=2, every call fine alone) on ONE connection and
	// compares with the calls alone. It returns "" when the history is in frame.
	together := func(tr string, hist []int) (sig, detail, outcome string) {
		last := alpha[hist[len(hist)-1]].class
		prevc := alpha[hist[len(hist)-2]].class
		var input []byte
		for _, h := range hist {
			input = append(input, alpha[h].wire()...)
		}
		vfResetEvents()
		out, unread, pan := vfC02Serve(tr, vfC02Server(), input)
		events := vfEventStrings()
		if pan != nil {
			return "C02:" + tr + ":serve-loop-panic:" + last, fmt.Sprintf("serve loop panicked: %v", pan), "panic"
		}
		sts, left, perr := vfParseStreams(out)
		var got []string
		for _, st := range sts {
			got = append(got, vfC02Render(st))
		}
		outcome = fmt.Sprintf("%d streams|unread=%d|%s", len(got), unread, strings.Join(got, "\n"))
		pos := 0
		var wantEv []string
		for i, h := range hist {
			so := soloOf(tr, h)
			wantEv = append(wantEv, so.events...)
			for k, ws := range so.streams {
				who := "C02:" + tr + ":after:" + prevc + ":next-call-misserved"
				if i < len(hist)-1 {
					// cannot happen when every proper prefix is in frame (the caller passes the
					// shortest failing prefix); kept so that a nondeterministic run is visible
					who = "C02:" + tr + ":unstable-prefix:" + alpha[h].class
				}
				if pos+k >= len(got) {
					return who, fmt.Sprintf("response to call %d (%s) is missing: stream %d of %d absent (output has %d streams, parse error: %v)", i, alpha[h].name, k+1, len(so.streams), len(got), perr), outcome
				}
				if got[pos+k] != ws {
					return who, fmt.Sprintf("response to call %d (%s), stream %d differs from the same call alone\n--- in history:\n%s\n--- alone:\n%s", i, alpha[h].name, k+1, got[pos+k], ws), outcome
				}
			}
			pos += len(so.streams)
		}
		leaves := "C02:" + tr + ":leaves-behind:" + last
		switch {
		case perr != nil:
			return leaves + ":unparseable-output", fmt.Sprintf("all %d responses present but the output then fails to parse: %v (%d bytes left)", len(hist), perr, left), outcome
		case len(got) != pos:
			return leaves + ":trailing-stream", fmt.Sprintf("output has %d streams, the %d calls own %d; extra:\n%s", len(got), len(hist), pos, strings.Join(got[pos:], "\n")), outcome
		case unread != 0:
			return leaves + ":unread-input", fmt.Sprintf("%d input bytes were not consumed", unread), outcome
		case vfJoin(events) != vfJoin(wantEv):
			return "C02:" + tr + ":user-code-invocations:" + last, fmt.Sprintf("user code invoked in history: %s\nconcatenation of the calls alone: %s", vfJoin(events), vfJoin(wantEv)), outcome
		}
		return "", "", outcome
	}

	judge := func(x *venum.X, tr string, hist []int) {
		var names []string
		for _, h := range hist {
			names = append(names, alpha[h].name)
		}
		x.Note("transport=%s history=%s", tr, strings.Join(names, " -> "))

		// 1. every call of the history must obey the statement alone (this also
		// guards the reference). The first one that does not names the failure.
		for _, h := range hist {
			if sig, detail := alone(tr, h); sig != "" {
				x.Failf(sig, "%s", detail)
				x.Outcome("%s|alone-broken:%s", tr, alpha[h].name)
				return
			}
		}
		if len(hist) == 1 {
			x.Outcome("%s|%s", tr, strings.Join(soloOf(tr, hist[0]).streams, "\n"))
			return
		}
		// 2. the history on one connection. On failure, the shortest failing prefix
		// names the culprit: either its last call is mis-served (blame the call
		// before it) or its last call leaves something behind.
		sig, detail, outcome := together(tr, hist)
		if sig != "" {
			for k := 2; k < len(hist); k++ {
				if s2, d2, _ := together(tr, hist[:k]); s2 != "" {
					sig, detail = s2, fmt.Sprintf("(shortest failing prefix: first %d calls) %s", k, d2)
					break
				}
			}
			x.Failf(sig, "%s", detail)
		}
		x.Outcome("%s|%s", tr, outcome)
	}

	venum.Explore(t, venum.Cfg{Name: "call-histories", Shardable: true}, func(x *venum.X) {
		hist := []int{x.Choose(n, "call0")}
		for len(hist) < maxLen {
			c := x.Choose(n+1, fmt.Sprintf("call%d(0=stop)", len(hist)))
			if c == 0 {
				break
			}
			hist = append(hist, c-1)
		}
		tr := vfC02Transports[x.Choose(len(vfC02Transports), "transport")]
		judge(x, tr, hist)
	})

	// What a handler's error SAYS must not matter: every failure site x every
	// error text (ordinary, "...EOF", "...broken pipe", "...connection reset..."),
	// alone and followed by a well-formed call, on each transport.
	venum.Explore(t, venum.Cfg{Name: "error-text-histories"}, func(x *venum.X) {
		hist := []int{textCalls[x.Choose(len(textCalls), "failing-call(site×text)")]}
		if f := x.Choose(len(followUps)+1, "follow-up(0=none)"); f > 0 {
			hist = append(hist, followUps[f-1])
		}
		tr := vfC02Transports[x.Choose(len(vfC02Transports), "transport")]
		judge(x, tr, hist)
	})
}
