//go:build verif

package vgirpc

import (
	"context"
	"fmt"
	"hash/adler32"
	"hash/crc32"
	"hash/fnv"
	"strconv"
	"strings"
	"testing"

	"github.com/apache/arrow-go/v18/arrow"

	"github.com/Query-farm/vgi-rpc-go/vgirpc/internal/verif/venum"
)

// C14 — a continuation token only resumes the stream method that minted it.
//
// Six stream methods are registered on one server (two producers with
// different output schemas, two exchanges with different input/output schemas,
// a dynamic method that yields a producer state and a dynamic method that
// yields an exchange state).  For every ORDERED pair (src, dst) the token set
// minted by src (after init, after one own turn, after two own turns; with or
// without the call token; with the call cache on or off) is presented to
// dst's /exchange route with every input-batch shape and with/without the
// cancel marker.  For src != dst the request must be answered 4xx, must not
// panic out of ServeHTTP, and no Produce/Exchange/OnCancel may run.

// VfC14Prod is a ProducerState that records every invocation.
type VfC14Prod struct {
	Owner string // method that minted the state
	Col   string
	N     int
}

func (p *VfC14Prod) Produce(ctx context.Context, out *OutputCollector, cc *CallContext) error {
	vfEvents = append(vfEvents, VfEvent{What: "produce", Method: cc.Method, Pos: p.N, Input: p.Owner})
	p.N++
	return out.Emit(vfI64Batch(p.Col, int64(p.N)))
}

func (p *VfC14Prod) OnCancel(ctx context.Context, cc *CallContext) error {
	vfEvents = append(vfEvents, VfEvent{What: "cancel", Method: cc.Method, Pos: p.N, Input: p.Owner})
	return nil
}

// VfC14Exch is an ExchangeState that records every invocation.
type VfC14Exch struct {
	Owner string
	Col   string
	N     int
}

func (p *VfC14Exch) Exchange(ctx context.Context, in arrow.RecordBatch, out *OutputCollector, cc *CallContext) error {
	vfEvents = append(vfEvents, VfEvent{What: "exchange", Method: cc.Method, Pos: p.N, Input: p.Owner})
	p.N++
	return out.Emit(vfI64Batch(p.Col, int64(p.N)))
}

func (p *VfC14Exch) OnCancel(ctx context.Context, cc *CallContext) error {
	vfEvents = append(vfEvents, VfEvent{What: "cancel", Method: cc.Method, Pos: p.N, Input: p.Owner})
	return nil
}

func init() {
	RegisterStateType(&VfC14Prod{})
	RegisterStateType(&VfC14Exch{})
}

type vfC14Method struct {
	name      string
	stateKind string // producer | exchange  (kind of the state the method mints)
	routeType string // producer | exchange | dynamic (registration type)
	ownInput  int    // index into vfC14Inputs of the input shape its own continuation takes
}

var vfC14Methods = []vfC14Method{
	{"P1", "producer", "producer", 0},
	{"P2", "producer", "producer", 0},
	{"E1", "exchange", "exchange", 1},
	{"E2", "exchange", "exchange", 2},
	{"DP", "producer", "dynamic", 0},
	{"DX", "exchange", "dynamic", 1},
}

var vfC14Inputs = []string{"tick", "x-batch", "y-batch"}

func vfC14Input(i int) arrow.RecordBatch {
	switch i {
	case 1:
		return vfI64Batch("x", 5)
	case 2:
		return vfI64Batch("y", 7)
	}
	return vfEmpty(vfEmptySchema)
}

func vfC14Server() *Server {
	s := NewServer()
	s.SetServerID("vf-c14")
	schV, schW := vfI64Schema("v"), vfI64Schema("w")
	schX, schY := vfI64Schema("x"), vfI64Schema("y")
	prod := func(owner, col string, sch *arrow.Schema) func(context.Context, *CallContext, VfXParams) (*StreamResult, error) {
		return func(ctx context.Context, cc *CallContext, p VfXParams) (*StreamResult, error) {
			return &StreamResult{OutputSchema: sch, State: &VfC14Prod{Owner: owner, Col: col}}, nil
		}
	}
	exch := func(owner, col string, out, in *arrow.Schema) func(context.Context, *CallContext, VfXParams) (*StreamResult, error) {
		return func(ctx context.Context, cc *CallContext, p VfXParams) (*StreamResult, error) {
			return &StreamResult{OutputSchema: out, InputSchema: in, State: &VfC14Exch{Owner: owner, Col: col}}, nil
		}
	}
	Producer(s, "P1", schV, prod("P1", "v", schV))
	Producer(s, "P2", schW, prod("P2", "w", schW))
	Exchange(s, "E1", schV, schX, exch("E1", "v", schV, schX))
	Exchange(s, "E2", schW, schY, exch("E2", "w", schW, schY))
	hdr := VfHeader{}.ArrowSchema()
	DynamicStreamWithHeader(s, "DP", hdr, prod("DP", "v", schV))
	DynamicStreamWithHeader(s, "DX", hdr, exch("DX", "v", schV, schX))
	return s
}

// vfC14Summary renders a response deterministically (no token bytes).
func vfC14Summary(body []byte) string {
	streams, _, err := vfParseStreams(body)
	if err != nil {
		return "unparseable(" + err.Error() + ")"
	}
	var parts []string
	for _, st := range streams {
		for _, b := range st.Batches {
			switch b.Kind {
			case "error":
				e := vfErrOf(b)
				parts = append(parts, "error:"+e.Type+":"+e.Message)
			case "data":
				_, tok := b.M(MetaStreamState)
				parts = append(parts, fmt.Sprintf("data%s:%s:token=%v", b.Schema, b.JSON, tok))
			default:
				parts = append(parts, b.Kind)
			}
		}
	}
	return fmt.Sprintf("streams=%d[%s]", len(streams), strings.Join(parts, ","))
}

// vfC14Collide returns the first two names prefix+i, prefix+j (i<j, sequential
// search, deterministic) with the same 32-bit digest.
func vfC14Collide(h func(string) uint32, prefix string) (string, string) {
	seen := map[uint32]string{}
	for i := 0; i < 1500000; i++ {
		// splitmix64 of the counter, base 36: equal-length names that differ in
		// many positions (CRCs never collide on names differing in <= 4 bytes)
		z := uint64(i+1) * 0x9E3779B97F4A7C15
		z = (z ^ (z >> 30)) * 0xBF58476D1CE4E5B9
		z = (z ^ (z >> 27)) * 0x94D049BB133111EB
		z ^= z >> 31
		n := prefix + strconv.FormatUint(z, 36)
		v := h(n)
		if m, ok := seen[v]; ok {
			return m, n
		}
		seen[v] = n
	}
	return "", ""
}

type vfC14NamePair struct{ family, a, b string }

// vfC14SimilarNames: pairs of DIFFERENT method names that a binding weaker than
// the full name would equate: equal short digests (found by search), letter
// case, prefix relation, long common prefix / suffix.
func vfC14SimilarNames() []vfC14NamePair {
	long := strings.Repeat("scan_partition_", 8) // 120 bytes
	ps := []vfC14NamePair{
		{"case", "ScanPart", "scanpart"},
		{"prefix", "scan", "scan2"},
		{"long-common-prefix", long + "a", long + "b"},
		{"long-common-suffix", "a" + long, "b" + long},
		{"same-length-one-byte", "scan_part_10", "scan_part_01"},
	}
	add := func(family string, h func(string) uint32) {
		a, b := vfC14Collide(h, "scan_part_")
		if a == "" {
			venum.EngineError("C14 harness: no %s collision found in the search bound", family)
			return
		}
		ps = append(ps, vfC14NamePair{family, a, b})
	}
	add("digest-fnv1a32", func(n string) uint32 { f := fnv.New32a(); f.Write([]byte(n)); return f.Sum32() })
	add("digest-fnv1-32", func(n string) uint32 { f := fnv.New32(); f.Write([]byte(n)); return f.Sum32() })
	add("digest-crc32-ieee", func(n string) uint32 { return crc32.ChecksumIEEE([]byte(n)) })
	casta := crc32.MakeTable(crc32.Castagnoli)
	add("digest-crc32-castagnoli", func(n string) uint32 { return crc32.Checksum([]byte(n), casta) })
	add("digest-adler32", func(n string) uint32 { return adler32.Checksum([]byte(n)) })
	add("digest-fnv1a64-folded", func(n string) uint32 { f := fnv.New64a(); f.Write([]byte(n)); v := f.Sum64(); return uint32(v) ^ uint32(v>>32) })
	add("digest-fnv1a64-low32", func(n string) uint32 { f := fnv.New64a(); f.Write([]byte(n)); return uint32(f.Sum64()) })
	return ps
}

func vfC14ShortName(n string) string {
	if len(n) > 40 {
		return fmt.Sprintf("%s…%s(%d bytes)", n[:16], n[len(n)-8:], len(n))
	}
	return n
}

// vfC14UserTurns counts Produce/Exchange/OnCancel invocations (not rehydrate).
func vfC14UserTurns() int {
	n := 0
	for _, e := range vfEvents {
		if e.What != "rehydrate" {
			n++
		}
	}
	return n
}

func TestVerif_C14(t *testing.T) {
	venum.Begin("C14")
	defer venum.Finish(t)

	nm := len(vfC14Methods)
	venum.Explore(t, venum.Cfg{Name: "cross-method-continuation", Shardable: true}, func(x *venum.X) {
		src := vfC14Methods[x.Choose(nm, "mint-method")]
		dst := vfC14Methods[x.Choose(nm, "present-to-method")]
		turns := x.Choose(3, "own-turns-before")
		inIdx := x.Choose(len(vfC14Inputs), "input-shape")
		cancel := x.Bool("cancel")
		withCall := !x.Bool("omit-call-token")
		cacheOff := x.Bool("call-cache-off")
		// The application's RehydrateFunc is per-method code that runs on the
		// decoded state: "none" = not configured; "record" = only records;
		// "typed" = the usual shape, switch on the method name and assert the
		// state type that method mints (panics on a foreign type); "error" =
		// the same check reported as an error.
		rehydrate := x.Pick("rehydrate-callback", "none", "record", "typed", "error")

		vfResetEvents()
		s := vfC14Server()
		h, err := NewHttpServerWithKey(s, []byte("c14-fixed-token-key-0123456789ab"))
		if err != nil {
			panic(err)
		}
		h.SetProducerBatchLimit(1)
		if cacheOff {
			h.SetCallStateCacheEntries(0)
		}
		if rehydrate != "none" {
			h.SetRehydrateFunc(func(state interface{}, method string) error {
				owner := "?"
				fits := false
				wantProd := method == "P1" || method == "P2" || method == "DP"
				switch st := state.(type) {
				case *VfC14Prod:
					owner, fits = st.Owner, wantProd
				case *VfC14Exch:
					owner, fits = st.Owner, !wantProd
				}
				vfEvents = append(vfEvents, VfEvent{What: "rehydrate", Method: method, Input: owner})
				switch rehydrate {
				case "typed":
					if wantProd {
						_ = state.(*VfC14Prod)
					} else {
						_ = state.(*VfC14Exch)
					}
				case "error":
					if !fits {
						return fmt.Errorf("state %T does not belong to method %s", state, method)
					}
				}
				return nil
			})
		}

		// Mint with src: init, then `turns` own continuations.
		rec, pan := vfArrowPost(h, "/"+src.name+"/init", vfXReq(src.name, 1))
		if pan != nil || rec.Code != 200 {
			venum.EngineError("C14 harness: init of %s failed: status=%d panic=%v", src.name, rec.Code, pan)
			return
		}
		st, _, perr := vfParseStreams(rec.Body.Bytes())
		if perr != nil {
			venum.EngineError("C14 harness: init response of %s unparseable: %v", src.name, perr)
			return
		}
		cursor, call := vfTokens(st)
		if cursor == "" || call == "" {
			venum.EngineError("C14 harness: init of %s minted no tokens (%s)", src.name, vfC14Summary(rec.Body.Bytes()))
			return
		}
		for k := 0; k < turns; k++ {
			rec, pan = vfArrowPost(h, "/"+src.name+"/exchange", vfExchangeBody(vfC14Input(src.ownInput), cursor, call))
			if pan != nil || rec.Code != 200 {
				venum.EngineError("C14 harness: own turn %d of %s failed: status=%d panic=%v", k, src.name, rec.Code, pan)
				return
			}
			st, _, _ = vfParseStreams(rec.Body.Bytes())
			c2, _ := vfTokens(st)
			if c2 == "" {
				venum.EngineError("C14 harness: own turn %d of %s returned no cursor (%s)", k, src.name, vfC14Summary(rec.Body.Bytes()))
				return
			}
			cursor = c2
		}

		// Present to dst's continuation route.
		vfResetEvents()
		presentCall := call
		if !withCall {
			presentCall = ""
		}
		var kv []string
		if cancel {
			kv = append(kv, MetaCancel, "true")
		}
		body := vfExchangeBody(vfC14Input(inIdx), cursor, presentCall, kv...)
		rec, pan = vfArrowPost(h, "/"+dst.name+"/exchange", body)
		events := vfEventStrings()
		summary := ""
		if pan == nil {
			summary = vfC14Summary(rec.Body.Bytes())
		}
		// Observed behaviour only (no choice values): status, panic text, which
		// user code ran under which name, decoded response.
		x.Outcome("status=%d panic=%v events=%v resp=%s", rec.Code, pan, events, summary)
		x.Note("mint %s (%d own turns), present to /%s/exchange input=%s cancel=%v call-token=%v cache-off=%v rehydrate=%s", src.name, turns, dst.name, vfC14Inputs[inIdx], cancel, withCall, cacheOff, rehydrate)
		x.Note("status=%d panic=%v events=%v resp=%s", rec.Code, pan, events, summary)

		if src.name == dst.name {
			// Control: the minting method's own route. Nothing is demanded by the
			// property; a well-formed continuation must work or the cross-method
			// refusals below would be vacuous.
			if pan == nil && !cancel && inIdx == src.ownInput && (withCall || !cacheOff) && (rec.Code != 200 || vfC14UserTurns() != 1) {
				venum.EngineError("C14 harness: own well-formed continuation of %s refused: status=%d events=%v resp=%s", src.name, rec.Code, events, summary)
			}
			return
		}

		cls := fmt.Sprintf("C14:%s-state@%s-route", src.stateKind, dst.routeType)
		flagged := false
		if pan != nil {
			x.Failf(cls+":panic-escapes-ServeHTTP", "%s tokens presented to /%s/exchange: panic escaped ServeHTTP: %v", src.name, dst.name, pan)
			flagged = true
		}
		seen := map[string]bool{}
		for _, e := range vfEvents {
			if !seen[e.What] {
				seen[e.What] = true
				x.Failf(cls+":foreign-"+e.What+"-ran", "%s tokens presented to /%s/exchange: %s ran under method %q on state minted by %q (status %d, resp %s)",
					src.name, dst.name, e.What, e.Method, e.Input, rec.Code, summary)
				flagged = true
			}
		}
		if !flagged && (rec.Code < 400 || rec.Code > 499) {
			x.Failf(cls+fmt.Sprintf(":status-%d", rec.Code), "%s tokens presented to /%s/exchange: status %d is not a client error (resp %s)", src.name, dst.name, rec.Code, summary)
		}
	})

	// ---- similar method names ---------------------------------------------------------
	//
	// Two methods of the SAME kind (so no state-kind check can separate them)
	// whose names are different but alike; tokens of one are presented to the
	// other's route in both directions.
	pairs := vfC14SimilarNames()
	for _, p := range pairs {
		venum.SetInfo("similar-names:"+p.family, fmt.Sprintf("%d/%d bytes", len(p.a), len(p.b)))
	}
	venum.Explore(t, venum.Cfg{Name: "similar-method-names", Shardable: true}, func(x *venum.X) {
		np := pairs[x.Choose(len(pairs), "name-pair")]
		rev := x.Bool("reverse-direction")
		kind := x.Pick("kind", "producer", "exchange")
		turns := x.Choose(2, "own-turns-before")
		cancel := x.Bool("cancel")
		rehydrate := x.Bool("recording-rehydrate-callback")
		cacheOff := x.Bool("call-cache-off")
		control := x.Bool("control-own-route")

		names := []string{np.a, np.b}
		cols := []string{"v", "w"}
		ins := []string{"x", "y"}
		vfResetEvents()
		s := NewServer()
		s.SetServerID("vf-c14")
		for i := range names {
			i := i
			out := vfI64Schema(cols[i])
			if kind == "producer" {
				Producer(s, names[i], out, func(ctx context.Context, cc *CallContext, p VfXParams) (*StreamResult, error) {
					return &StreamResult{OutputSchema: out, State: &VfC14Prod{Owner: names[i], Col: cols[i]}}, nil
				})
			} else {
				in := vfI64Schema(ins[i])
				Exchange(s, names[i], out, in, func(ctx context.Context, cc *CallContext, p VfXParams) (*StreamResult, error) {
					return &StreamResult{OutputSchema: out, InputSchema: in, State: &VfC14Exch{Owner: names[i], Col: cols[i]}}, nil
				})
			}
		}
		h, err := NewHttpServerWithKey(s, []byte("c14-fixed-token-key-0123456789ab"))
		if err != nil {
			panic(err)
		}
		h.SetProducerBatchLimit(1)
		if cacheOff {
			h.SetCallStateCacheEntries(0)
		}
		if rehydrate {
			h.SetRehydrateFunc(func(state interface{}, method string) error {
				vfEvents = append(vfEvents, VfEvent{What: "rehydrate", Method: method})
				return nil
			})
		}
		si, di := 0, 1
		if rev {
			si, di = 1, 0
		}
		if control {
			di = si
		}
		input := func(i int) arrow.RecordBatch {
			if kind == "producer" {
				return vfEmpty(vfEmptySchema)
			}
			return vfI64Batch(ins[i], 5)
		}
		rec, pan := vfArrowPost(h, "/"+names[si]+"/init", vfXReq(names[si], 1))
		if pan != nil || rec.Code != 200 {
			venum.EngineError("C14 harness: init of %q failed: status=%d panic=%v", names[si], rec.Code, pan)
			return
		}
		st, _, _ := vfParseStreams(rec.Body.Bytes())
		cursor, call := vfTokens(st)
		if cursor == "" || call == "" {
			venum.EngineError("C14 harness: init of %q minted no tokens", names[si])
			return
		}
		for k := 0; k < turns; k++ {
			rec, pan = vfArrowPost(h, "/"+names[si]+"/exchange", vfExchangeBody(input(si), cursor, call))
			st, _, _ = vfParseStreams(rec.Body.Bytes())
			c2, _ := vfTokens(st)
			if pan != nil || rec.Code != 200 || c2 == "" {
				venum.EngineError("C14 harness: own turn of %q failed: status=%d panic=%v", names[si], rec.Code, pan)
				return
			}
			cursor = c2
		}
		vfResetEvents()
		var kv []string
		if cancel {
			kv = append(kv, MetaCancel, "true")
		}
		rec, pan = vfArrowPost(h, "/"+names[di]+"/exchange", vfExchangeBody(input(di), cursor, call, kv...))
		var what []string
		for _, e := range vfEvents {
			what = append(what, e.What)
		}
		summary := ""
		if pan == nil {
			summary = vfC14Summary(rec.Body.Bytes())
		}
		x.Outcome("control=%v status=%d panic=%v ran=%v", control, rec.Code, pan != nil, what)
		x.Note("family %s: tokens of %q (%d own turns) presented to /%s/exchange, kind=%s cancel=%v rehydrate=%v cache-off=%v -> status=%d panic=%v ran=%v resp=%s",
			np.family, vfC14ShortName(names[si]), turns, vfC14ShortName(names[di]), kind, cancel, rehydrate, cacheOff, rec.Code, pan, what, summary)
		if control {
			if pan != nil || rec.Code != 200 || vfC14UserTurns() != 1 {
				venum.EngineError("C14 harness: own continuation of %q refused: status=%d ran=%v", names[si], rec.Code, what)
			}
			return
		}
		cls := "C14:similar-names:" + np.family + ":" + kind
		switch {
		case pan != nil:
			x.Failf(cls+":panic-escapes-ServeHTTP", "tokens of %q presented to /%s/exchange: panic escaped ServeHTTP: %v", vfC14ShortName(names[si]), vfC14ShortName(names[di]), pan)
		case len(vfEvents) > 0:
			x.Failf(cls+":foreign-"+vfEvents[0].What+"-ran", "tokens of %q presented to /%s/exchange: %v ran under method %q (status %d, resp %s)",
				vfC14ShortName(names[si]), vfC14ShortName(names[di]), what, vfC14ShortName(vfEvents[0].Method), rec.Code, summary)
		case rec.Code < 400 || rec.Code > 499:
			x.Failf(cls+fmt.Sprintf(":status-%d", rec.Code), "tokens of %q presented to /%s/exchange: status %d is not a client error", vfC14ShortName(names[si]), vfC14ShortName(names[di]), rec.Code)
		}
	})
}
