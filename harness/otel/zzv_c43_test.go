//go:build verif

// C43: for every dispatch, the OpenTelemetry hook ends each recording span it started exactly
// once, marks it as an error exactly when the call failed, parents it on the caller's
// traceparent when one was sent, and counts the request once with the matching status.
//
// The REAL vgiotel.InstrumentServer hook is installed on a REAL working-tree vgirpc.Server
// (go.mod copy with `replace … => <working tree>`), and call histories are driven through the
// REAL dispatch: Server.ServeWithContext on in-memory buffers (pipe) and HttpServer.ServeHTTP
// on a recorder (HTTP).  Spans are observed through the SDK's in-memory SpanRecorder plus a
// thin TracerProvider wrapper that counts End() calls (the SDK hides a second End); metrics
// through a ManualReader.  "The call failed" is what the same history reports to a plain
// reference DispatchHook on a twin server with no OpenTelemetry at all.
package vgiotel

import (
	"bytes"
	"context"
	"errors"
	"fmt"
	"io"
	"io/fs"
	"log/slog"
	"net/http/httptest"
	"os"
	"sort"
	"strconv"
	"strings"
	"syscall"
	"testing"

	"github.com/apache/arrow-go/v18/arrow"
	"github.com/apache/arrow-go/v18/arrow/array"
	"github.com/apache/arrow-go/v18/arrow/ipc"
	"github.com/apache/arrow-go/v18/arrow/memory"
	"go.opentelemetry.io/otel"
	"go.opentelemetry.io/otel/attribute"
	"go.opentelemetry.io/otel/codes"
	"go.opentelemetry.io/otel/propagation"
	sdkmetric "go.opentelemetry.io/otel/sdk/metric"
	"go.opentelemetry.io/otel/sdk/metric/metricdata"
	sdktrace "go.opentelemetry.io/otel/sdk/trace"
	"go.opentelemetry.io/otel/sdk/trace/tracetest"
	"go.opentelemetry.io/otel/trace"

	"github.com/Query-farm/vgi-rpc-go/vgirpc"
	"github.com/Query-farm/vgi-rpc-go/vgirpc/otel/internal/verif/venum"
)

// ---------------------------------------------------------------------------
// Scripted methods

type ZC43Params struct {
	X int64 `vgirpc:"x"`
}

// ZC43State is a scripted stream state (gob-registered so it survives HTTP state tokens).
// Turn codes: e emit one row | f finish | x fail with an RpcError.
type ZC43State struct {
	Script []string
	Pos    int
}

func (s *ZC43State) turn(what string, out *vgirpc.OutputCollector) error {
	code := "e"
	if s.Pos < len(s.Script) {
		code = s.Script[s.Pos]
	} else if what == "produce" {
		code = "f"
	}
	pos := s.Pos
	s.Pos++
	switch code {
	case "e":
		return out.EmitMap(map[string][]interface{}{"v": {int64(pos)}})
	case "f":
		return out.Finish()
	case "x":
		return &vgirpc.RpcError{Type: "ValueError", Message: fmt.Sprintf("scripted failure at turn %d", pos)}
	}
	if strings.HasPrefix(code, "v") { // fail with error value number N
		n, _ := strconv.Atoi(code[1:])
		return zc43ErrValue(n)
	}
	panic("zc43: unknown turn code " + code)
}

func (s *ZC43State) Produce(ctx context.Context, out *vgirpc.OutputCollector, cc *vgirpc.CallContext) error {
	return s.turn("produce", out)
}

func (s *ZC43State) Exchange(ctx context.Context, in arrow.RecordBatch, out *vgirpc.OutputCollector, cc *vgirpc.CallContext) error {
	return s.turn("exchange", out)
}

func (s *ZC43State) OnCancel(ctx context.Context, cc *vgirpc.CallContext) error { return nil }

func init() {
	vgirpc.RegisterStateType(&ZC43State{})
	// recovered handler panics are logged through slog by the code under test
	slog.SetDefault(slog.New(slog.NewTextHandler(io.Discard, nil)))
}

// Error values by dynamic type: what a handler may legitimately return as `error`.
type zc43StrErr string

func (e zc43StrErr) Error() string { return string(e) }

type zc43IntErr int

func (e zc43IntErr) Error() string { return fmt.Sprintf("code %d", int(e)) }

type zc43StructErr struct{ Op string }

func (e zc43StructErr) Error() string { return "struct-valued error in " + e.Op }

type zc43PtrErr struct{ Op string }

func (e *zc43PtrErr) Error() string { return "pointer-typed error in " + e.Op }

var zc43ErrValueNames = []string{"RpcError", "errors.New", "uintptr-based(syscall.Errno)", "string-based", "int-based", "struct-valued",
	"pointer-to-struct", "*fs.PathError", "wrapped-RpcError", "errors.Join", "func-based",
	// well-known sentinel values (a handler that gives up returns ctx.Err(), io.EOF, ...), bare and wrapped
	"context.Canceled", "wrapped-context.Canceled", "context.DeadlineExceeded", "io.EOF", "wrapped-os.ErrNotExist", "io.ErrUnexpectedEOF"}

type zc43FuncErr func() string

func (f zc43FuncErr) Error() string { return f() }

func zc43ErrValue(i int) error {
	switch i {
	case 0:
		return &vgirpc.RpcError{Type: "ValueError", Message: "scripted RpcError"}
	case 1:
		return errors.New("scripted errors.New")
	case 2:
		return syscall.ENOENT
	case 3:
		return zc43StrErr("scripted string-based error")
	case 4:
		return zc43IntErr(7)
	case 5:
		return zc43StructErr{Op: "handler"}
	case 6:
		return &zc43PtrErr{Op: "handler"}
	case 7:
		return &fs.PathError{Op: "open", Path: "/nonexistent", Err: syscall.ENOENT}
	case 8:
		return fmt.Errorf("wrapped: %w", &vgirpc.RpcError{Type: "ValueError", Message: "inner"})
	case 9:
		return errors.Join(errors.New("first"), zc43IntErr(3))
	case 10:
		return zc43FuncErr(func() string { return "func-based error" })
	case 11:
		return context.Canceled
	case 12:
		return fmt.Errorf("query abandoned: %w", context.Canceled)
	case 13:
		return context.DeadlineExceeded
	case 14:
		return io.EOF
	case 15:
		return fmt.Errorf("lookup: %w", os.ErrNotExist)
	default:
		return io.ErrUnexpectedEOF
	}
}

// zc43ErrKinds: each error value returned from a unary handler, a stream init and an exchange turn.
func zc43ErrKinds() []zc43Kind {
	var out []zc43Kind
	for i, n := range zc43ErrValueNames {
		out = append(out,
			zc43Kind{Name: "u-errval:" + n, Method: "u_errval", X: int64(i)},
			zc43Kind{Name: "prod-initerrval:" + n, Method: "prod", Stream: 1, X: -100 - int64(i), In: []string{"t"}},
			zc43Kind{Name: "exch-turnerrval:" + n, Method: "exch", Stream: 2, X: 200 + int64(i), In: []string{"i", "i"}})
	}
	return out
}

var zc43Scripts = map[int64][]string{
	1: {"e", "e", "f"},
	2: {"e", "x"},
	5: {"e", "e", "e", "f"},
	6: {"e", "e"},
}

type zc43Kind struct {
	Name   string
	Method string
	Stream int // 0 unary, 1 producer, 2 exchange
	X      int64
	In     []string // t tick | i int64 input | cancel
}

var zc43Kinds = []zc43Kind{
	{Name: "u-ok", Method: "u_ok", X: 5},
	{Name: "u-err", Method: "u_err", X: 5},
	{Name: "u-panic", Method: "u_panic", X: 5},
	{Name: "u-plainerr", Method: "u_plainerr", X: 5},
	{Name: "prod-2", Method: "prod", Stream: 1, X: 1, In: []string{"t", "t", "t"}},
	{Name: "prod-initerr", Method: "prod", Stream: 1, X: -1, In: []string{"t"}},
	{Name: "prod-cancel", Method: "prod", Stream: 1, X: 5, In: []string{"t", "cancel"}},
	{Name: "exch-2", Method: "exch", Stream: 2, X: 6, In: []string{"i", "i"}},
	{Name: "exch-err", Method: "exch", Stream: 2, X: 2, In: []string{"i", "i"}},
	{Name: "exch-cancel", Method: "exch", Stream: 2, X: 6, In: []string{"i", "cancel"}},
}

var zc43Mem = memory.NewGoAllocator()

func zc43I64Schema(name string) *arrow.Schema {
	return arrow.NewSchema([]arrow.Field{{Name: name, Type: arrow.PrimitiveTypes.Int64}}, nil)
}

var (
	zc43InSchema    = zc43I64Schema("x")
	zc43OutSchema   = zc43I64Schema("v")
	zc43EmptySchema = arrow.NewSchema(nil, nil)
)

func zc43NewServer() *vgirpc.Server {
	s := vgirpc.NewServer()
	s.SetServerID("srv43")
	s.SetServiceName("Svc43")
	vgirpc.Unary(s, "u_ok", func(ctx context.Context, cc *vgirpc.CallContext, p ZC43Params) (int64, error) {
		return p.X + 1, nil
	})
	vgirpc.Unary(s, "u_err", func(ctx context.Context, cc *vgirpc.CallContext, p ZC43Params) (int64, error) {
		return 0, &vgirpc.RpcError{Type: "ValueError", Message: "scripted unary failure"}
	})
	vgirpc.Unary(s, "u_plainerr", func(ctx context.Context, cc *vgirpc.CallContext, p ZC43Params) (int64, error) {
		return 0, fmt.Errorf("scripted plain Go error (not an RpcError)")
	})
	vgirpc.Unary(s, "u_errval", func(ctx context.Context, cc *vgirpc.CallContext, p ZC43Params) (int64, error) {
		return 0, zc43ErrValue(int(p.X))
	})
	vgirpc.Unary(s, "u_panic", func(ctx context.Context, cc *vgirpc.CallContext, p ZC43Params) (int64, error) {
		panic("scripted unary panic")
	})
	initFn := func(ctx context.Context, cc *vgirpc.CallContext, p ZC43Params) (*vgirpc.StreamResult, error) {
		if p.X == -1 {
			return nil, &vgirpc.RpcError{Type: "ValueError", Message: "scripted init failure"}
		}
		if p.X <= -100 {
			return nil, zc43ErrValue(int(-100 - p.X))
		}
		if p.X >= 200 {
			return &vgirpc.StreamResult{OutputSchema: zc43OutSchema, State: &ZC43State{Script: []string{"e", fmt.Sprintf("v%d", p.X-200)}}}, nil
		}
		return &vgirpc.StreamResult{OutputSchema: zc43OutSchema, State: &ZC43State{Script: zc43Scripts[p.X]}}, nil
	}
	vgirpc.Producer(s, "prod", zc43OutSchema, initFn)
	vgirpc.Exchange(s, "exch", zc43OutSchema, zc43InSchema, initFn)
	return s
}

// ---------------------------------------------------------------------------
// Framing (exported API + arrow only)

func zc43I64Batch(name string, v int64) arrow.RecordBatch {
	b := array.NewInt64Builder(zc43Mem)
	defer b.Release()
	b.Append(v)
	arr := b.NewArray()
	defer arr.Release()
	return array.NewRecordBatch(zc43I64Schema(name), []arrow.Array{arr}, 1)
}

func zc43ZeroRows(schema *arrow.Schema) arrow.RecordBatch {
	cols := make([]arrow.Array, schema.NumFields())
	for i, f := range schema.Fields() {
		bl := array.NewBuilder(zc43Mem, f.Type)
		cols[i] = bl.NewArray()
		bl.Release()
	}
	return array.NewRecordBatch(schema, cols, 0)
}

func zc43WithMeta(b arrow.RecordBatch, kv ...string) arrow.RecordBatch {
	if len(kv) == 0 {
		return b
	}
	var keys, vals []string
	for i := 0; i+1 < len(kv); i += 2 {
		keys, vals = append(keys, kv[i]), append(vals, kv[i+1])
	}
	return array.NewRecordBatchWithMetadata(b.Schema(), b.Columns(), b.NumRows(), arrow.NewMetadata(keys, vals))
}

func zc43StreamBytes(schema *arrow.Schema, batches ...arrow.RecordBatch) []byte {
	var buf bytes.Buffer
	w := ipc.NewWriter(&buf, ipc.WithSchema(schema))
	for _, b := range batches {
		if err := w.Write(b); err != nil {
			panic(fmt.Sprintf("zc43StreamBytes: %v", err))
		}
	}
	if err := w.Close(); err != nil {
		panic(err)
	}
	return buf.Bytes()
}

func zc43Request(k *zc43Kind, call int, extra ...string) []byte {
	meta := []string{vgirpc.MetaMethod, k.Method, vgirpc.MetaRequestVersion, vgirpc.ProtocolVersion,
		vgirpc.MetaRequestID, fmt.Sprintf("c%d", call)}
	meta = append(meta, extra...)
	p := zc43I64Batch("x", k.X)
	return zc43StreamBytes(p.Schema(), zc43WithMeta(p, meta...))
}

// zc43Resp is the client-visible result of one unit.
type zc43Resp struct {
	failed      bool // an EXCEPTION batch, X-VGI-RPC-Error or status >= 400
	parseOK     bool
	cursor, tok string
	nBatches    int
}

func zc43Parse(data []byte, r *zc43Resp) {
	rd := bytes.NewReader(data)
	r.parseOK = true
	for rd.Len() > 0 {
		err := func() (e error) {
			defer func() {
				if rv := recover(); rv != nil {
					e = fmt.Errorf("panic: %v", rv)
				}
			}()
			ir, e := ipc.NewReader(rd)
			if e != nil {
				return e
			}
			defer ir.Release()
			for ir.Next() {
				rec := ir.RecordBatch()
				r.nBatches++
				bwm, ok := rec.(arrow.RecordBatchWithMetadata)
				if !ok {
					continue
				}
				m := bwm.Metadata()
				for i, key := range m.Keys() {
					switch key {
					case vgirpc.MetaLogLevel:
						if m.Values()[i] == "EXCEPTION" {
							r.failed = true
						}
					case vgirpc.MetaStreamState:
						r.cursor = m.Values()[i]
					case vgirpc.MetaCallState:
						r.tok = m.Values()[i]
					}
				}
			}
			if e := ir.Err(); e != nil && e != io.EOF {
				return e
			}
			return nil
		}()
		if err != nil {
			r.parseOK = false
			return
		}
	}
}

// ---------------------------------------------------------------------------
// Trace context alphabet

const (
	zc43TPAbsent = iota
	zc43TPValid
	zc43TPMalformed
	zc43TPUnsampled
)

var zc43TPNames = []string{"tp-absent", "tp-valid", "tp-malformed", "tp-valid-unsampled"}

func zc43TraceID(call int) string { return fmt.Sprintf("%032x", 0xa0+call) }
func zc43SpanID(call int) string  { return fmt.Sprintf("%016x", 0xb0+call) }

func zc43Traceparent(mode, call int) string {
	tid, sid := zc43TraceID(call), zc43SpanID(call)
	switch mode {
	case zc43TPValid:
		return "00-" + tid + "-" + sid + "-01"
	case zc43TPUnsampled:
		return "00-" + tid + "-" + sid + "-00"
	case zc43TPMalformed:
		switch call % 3 {
		case 0:
			return "00-" + tid[:31] + "-" + sid + "-01" // trace id one digit short
		case 1:
			return "00-" + strings.Repeat("0", 32) + "-" + sid + "-01" // all-zero trace id is invalid
		default:
			return "ff-" + tid + "-" + sid + "-01" // version ff is forbidden
		}
	}
	return ""
}

// ---------------------------------------------------------------------------
// Observation: reference hook (twin server) and OpenTelemetry spies

type zc43Dispatch struct {
	Method, MType string
	Failed        bool
}

// zc43RefHook is a plain DispatchHook: the ground truth of what the core dispatches.
type zc43RefHook struct {
	unit  *int
	units map[int][]zc43Dispatch
}

func (h *zc43RefHook) OnDispatchStart(ctx context.Context, info vgirpc.DispatchInfo) (context.Context, vgirpc.HookToken) {
	return ctx, *h.unit
}

func (h *zc43RefHook) OnDispatchEnd(ctx context.Context, token vgirpc.HookToken, info vgirpc.DispatchInfo, stats *vgirpc.CallStatistics, err error) {
	u, _ := token.(int)
	h.units[u] = append(h.units[u], zc43Dispatch{Method: info.Method, MType: info.MethodType, Failed: err != nil})
}

type zc43SpySpan struct {
	trace.Span
	recordingAtStart bool
	ends             int
	unit             int
}

func (s *zc43SpySpan) End(o ...trace.SpanEndOption) {
	s.ends++
	s.Span.End(o...)
}

type zc43SpyLog struct {
	unit  *int
	spans []*zc43SpySpan
}

type zc43SpyTP struct {
	trace.TracerProvider
	log *zc43SpyLog
}

func (p zc43SpyTP) Tracer(name string, o ...trace.TracerOption) trace.Tracer {
	return zc43SpyTracer{Tracer: p.TracerProvider.Tracer(name, o...), log: p.log}
}

type zc43SpyTracer struct {
	trace.Tracer
	log *zc43SpyLog
}

func (t zc43SpyTracer) Start(ctx context.Context, name string, o ...trace.SpanStartOption) (context.Context, trace.Span) {
	ctx, sp := t.Tracer.Start(ctx, name, o...)
	s := &zc43SpySpan{Span: sp, recordingAtStart: sp.IsRecording(), unit: *t.log.unit}
	t.log.spans = append(t.log.spans, s)
	return trace.ContextWithSpan(ctx, s), s
}

// zc43Counts reads the cumulative request counter: attribute set (sorted, rendered) -> value.
func zc43Counts(reader *sdkmetric.ManualReader) (map[string]int64, bool) {
	var rm metricdata.ResourceMetrics
	if err := reader.Collect(context.Background(), &rm); err != nil {
		return nil, false
	}
	out := map[string]int64{}
	found := false
	for _, sm := range rm.ScopeMetrics {
		for _, m := range sm.Metrics {
			if m.Name != "rpc.server.requests" {
				continue
			}
			found = true
			if sum, ok := m.Data.(metricdata.Sum[int64]); ok {
				for _, dp := range sum.DataPoints {
					var kv []string
					for _, a := range dp.Attributes.ToSlice() {
						kv = append(kv, string(a.Key)+"="+a.Value.Emit())
					}
					sort.Strings(kv)
					out[strings.Join(kv, ",")] += dp.Value
				}
			}
		}
	}
	return out, found
}

func zc43Attr(set, key string) string {
	for _, kv := range strings.Split(set, ",") {
		if strings.HasPrefix(kv, key+"=") {
			return strings.TrimPrefix(kv, key+"=")
		}
	}
	return ""
}

// ---------------------------------------------------------------------------
// Driving a history

type zc43Unit struct {
	Call  int
	Kind  *zc43Kind
	Role  string // pipe: unary | stream; http: unary | init | cont | exch | cancel
	Resp  zc43Resp
	Panic any
	// filled by the otel run
	spans      []*zc43SpySpan
	countDelta map[string]int64
}

type zc43Call struct {
	Kind   *zc43Kind
	TP     int
	TState bool
}

func (c *zc43Call) headers(call int) (tp, ts string) {
	tp = zc43Traceparent(c.TP, call)
	if c.TState {
		ts = fmt.Sprintf("vnd=c%d", call)
	}
	return
}

type zc43SegReader struct {
	segs   [][]byte
	i, off int
	onDone func(i int)
}

func (r *zc43SegReader) Read(p []byte) (int, error) {
	for r.i < len(r.segs) && r.off >= len(r.segs[r.i]) {
		r.onDone(r.i)
		r.i++
		r.off = 0
	}
	if r.i >= len(r.segs) {
		return 0, io.EOF
	}
	n := copy(p, r.segs[r.i][r.off:])
	r.off += n
	return n, nil
}

func zc43PipeSegment(c *zc43Call, call int) []byte {
	k := c.Kind
	var extra []string
	tp, ts := c.headers(call)
	if tp != "" {
		extra = append(extra, vgirpc.MetaTraceparent, tp)
	}
	if ts != "" {
		extra = append(extra, vgirpc.MetaTracestate, ts)
	}
	seg := zc43Request(k, call, extra...)
	if k.Stream == 0 {
		return seg
	}
	schema := zc43EmptySchema
	if k.Stream == 2 {
		schema = zc43InSchema
	}
	var batches []arrow.RecordBatch
	for i, code := range k.In {
		switch code {
		case "t":
			batches = append(batches, zc43ZeroRows(schema))
		case "cancel":
			batches = append(batches, zc43WithMeta(zc43ZeroRows(schema), vgirpc.MetaCancel, "true"))
		default:
			batches = append(batches, zc43I64Batch("x", int64(i+1)))
		}
	}
	return append(seg, zc43StreamBytes(schema, batches...)...)
}

// zc43Run drives hist on server s; curUnit is advanced before each unit starts and
// onUnitEnd is called when a unit's response is complete.
// zc43AmbientCtx is the context handed INTO the dispatch: plain, or already carrying a sampled
// span of an unrelated trace (a worker-lifetime span around ServeWithContext, an otelhttp span on
// the HTTP request context).
const (
	zc43AmbientTraceID = "000000000000000000000000000000ee"
	zc43AmbientSpanID  = "00000000000000dd"
)

func zc43AmbientCtx(ambient bool) context.Context {
	ctx := context.Background()
	if !ambient {
		return ctx
	}
	tid, _ := trace.TraceIDFromHex(zc43AmbientTraceID)
	sid, _ := trace.SpanIDFromHex(zc43AmbientSpanID)
	sc := trace.NewSpanContext(trace.SpanContextConfig{TraceID: tid, SpanID: sid, TraceFlags: trace.FlagsSampled})
	return trace.ContextWithSpanContext(ctx, sc)
}

func zc43Run(s *vgirpc.Server, hist []zc43Call, http, ambient bool, curUnit *int, onUnitEnd func(u *zc43Unit)) (units []*zc43Unit, escaped any) {
	if !http {
		var segs [][]byte
		for i := range hist {
			segs = append(segs, zc43PipeSegment(&hist[i], i))
			role := "unary"
			if hist[i].Kind.Stream != 0 {
				role = "stream"
			}
			units = append(units, &zc43Unit{Call: i, Kind: hist[i].Kind, Role: role})
		}
		var w bytes.Buffer
		mark := 0
		rd := &zc43SegReader{segs: segs}
		rd.onDone = func(i int) {
			u := units[i]
			zc43Parse(w.Bytes()[mark:], &u.Resp)
			mark = w.Len()
			onUnitEnd(u)
			*curUnit = i + 1
		}
		*curUnit = 0
		func() {
			defer func() {
				if rv := recover(); rv != nil {
					escaped = rv
				}
			}()
			s.ServeWithContext(zc43AmbientCtx(ambient), rd, &w)
		}()
		return units, escaped
	}
	h := vgirpc.NewHttpServer(s)
	h.SetProducerBatchLimit(1)
	post := func(call int, c *zc43Call, role, route string, body []byte) *zc43Unit {
		u := &zc43Unit{Call: call, Kind: c.Kind, Role: role}
		*curUnit = len(units)
		units = append(units, u)
		req := httptest.NewRequest("POST", route, bytes.NewReader(body))
		req = req.WithContext(zc43AmbientCtx(ambient))
		req.Header.Set("Content-Type", "application/vnd.apache.arrow.stream")
		tp, ts := c.headers(call)
		if tp != "" {
			req.Header.Set("traceparent", tp)
		}
		if ts != "" {
			req.Header.Set("tracestate", ts)
		}
		rec := httptest.NewRecorder()
		func() {
			defer func() {
				if rv := recover(); rv != nil {
					u.Panic = rv
					if escaped == nil {
						escaped = rv
					}
				}
			}()
			h.ServeHTTP(rec, req)
		}()
		zc43Parse(rec.Body.Bytes(), &u.Resp)
		if rec.Code >= 400 || rec.Header().Get("X-VGI-RPC-Error") != "" {
			u.Resp.failed = true
		}
		onUnitEnd(u)
		return u
	}
	for i := range hist {
		c := &hist[i]
		k := c.Kind
		body := zc43Request(k, i)
		if k.Stream == 0 {
			post(i, c, "unary", "/"+k.Method, body)
			continue
		}
		u := post(i, c, "init", "/"+k.Method+"/init", body)
		cursor, tok := u.Resp.cursor, u.Resp.tok
		in := k.In
		if k.Stream == 1 && len(in) > 0 {
			in = in[1:] // the first tick is folded into /init
		}
		for j, code := range in {
			if cursor == "" {
				break // stream over: a client stops here
			}
			var ib arrow.RecordBatch
			role := "exch"
			switch code {
			case "t":
				ib, role = zc43ZeroRows(zc43EmptySchema), "cont"
			case "cancel":
				ib, role = zc43ZeroRows(zc43EmptySchema), "cancel"
			default:
				ib = zc43I64Batch("x", int64(j+1))
			}
			meta := []string{vgirpc.MetaStreamState, cursor}
			if tok != "" {
				meta = append(meta, vgirpc.MetaCallState, tok)
			}
			if code == "cancel" {
				meta = append(meta, vgirpc.MetaCancel, "true")
			}
			b := zc43StreamBytes(ib.Schema(), zc43WithMeta(ib, meta...))
			u = post(i, c, role, "/"+k.Method+"/exchange", b)
			cursor = u.Resp.cursor
			if u.Resp.tok != "" {
				tok = u.Resp.tok
			}
		}
	}
	return units, escaped
}

// zc43Reference runs the kinds of hist on a twin server carrying a plain hook.
var zc43RefCache = map[string][][]zc43Dispatch{}

func zc43Reference(hist []zc43Call, http bool) [][]zc43Dispatch {
	key := fmt.Sprint(http)
	for _, c := range hist {
		key += "|" + c.Kind.Name
	}
	if r, ok := zc43RefCache[key]; ok {
		return r
	}
	plain := make([]zc43Call, len(hist))
	for i, c := range hist {
		plain[i] = zc43Call{Kind: c.Kind}
	}
	cur := 0
	ref := &zc43RefHook{unit: &cur, units: map[int][]zc43Dispatch{}}
	s := zc43NewServer()
	s.SetDispatchHook(ref)
	units, _ := zc43Run(s, plain, http, false, &cur, func(*zc43Unit) {})
	out := make([][]zc43Dispatch, len(units))
	for i := range units {
		out[i] = ref.units[i]
	}
	zc43RefCache[key] = out
	return out
}

// ---------------------------------------------------------------------------

// zc43SetGlobalPropagator installs the W3C propagator as the process-wide default (the
// documented way to configure the hook when OtelConfig.Propagator is left nil).
func zc43SetGlobalPropagator(on bool) (restore func()) {
	if !on {
		return func() {}
	}
	prev := otel.GetTextMapPropagator()
	otel.SetTextMapPropagator(propagation.TraceContext{})
	return func() { otel.SetTextMapPropagator(prev) }
}

func zc43Explore(t *testing.T, name string, kinds []zc43Kind, maxDepth int, tpModes []int, globalProp bool) {
	venum.Explore(t, venum.Cfg{Name: name, Shardable: true, CheckDeterminism: true}, func(x *venum.X) {
		cfg := x.Choose(32, "config(transport x tracing x metrics x tracestate x ambient-span)")
		http := cfg&1 == 1
		tracing := cfg&2 != 0
		metrics := cfg&4 != 0
		tstate := cfg&8 != 0
		ambient := cfg&16 != 0 // the context passed into the dispatch already carries a span
		n := 1 + x.Choose(maxDepth, "calls")
		var hist []zc43Call
		for i := 0; i < n; i++ {
			k := x.Choose(len(kinds), fmt.Sprintf("call%d", i))
			tp := tpModes[x.Choose(len(tpModes), fmt.Sprintf("traceparent%d", i))]
			hist = append(hist, zc43Call{Kind: &kinds[k], TP: tp, TState: tstate})
		}
		transport := "pipe"
		if http {
			transport = "http"
		}
		ref := zc43Reference(hist, http)

		cur := 0
		rec := tracetest.NewSpanRecorder()
		tp := sdktrace.NewTracerProvider(sdktrace.WithSpanProcessor(rec))
		defer tp.Shutdown(context.Background())
		reader := sdkmetric.NewManualReader()
		mp := sdkmetric.NewMeterProvider(sdkmetric.WithReader(reader))
		defer mp.Shutdown(context.Background())
		spy := &zc43SpyLog{unit: &cur}
		ocfg := OtelConfig{TracerProvider: zc43SpyTP{TracerProvider: tp, log: spy}, MeterProvider: mp,
			EnableTracing: tracing, EnableMetrics: metrics, RecordExceptions: true}
		restore := zc43SetGlobalPropagator(globalProp)
		defer restore()
		if !globalProp {
			ocfg.Propagator = propagation.TraceContext{}
		}
		s := zc43NewServer()
		InstrumentServer(s, ocfg)

		prevCounts := map[string]int64{}
		seenSpans := 0
		units, escaped := zc43Run(s, hist, http, ambient, &cur, func(u *zc43Unit) {
			u.spans = spy.spans[seenSpans:]
			seenSpans = len(spy.spans)
			now, _ := zc43Counts(reader)
			u.countDelta = map[string]int64{}
			for k, v := range now {
				if d := v - prevCounts[k]; d != 0 {
					u.countDelta[k] = d
				}
			}
			prevCounts = now
		})
		if escaped != nil {
			x.Failf("C43:"+transport+":panic-escaped", "a panic escaped the dispatch with the OpenTelemetry hook installed: %v", escaped)
		}
		if len(units) != len(ref) {
			venum.EngineError("reference run has %d units, instrumented run %d (%s)", len(ref), len(units), name)
			return
		}
		// SDK view of every span (status, parent), by span id
		type sdkSpan struct {
			status   codes.Code
			parent   trace.SpanContext
			traceID  string
			ended    bool
			method   string
			hasState bool
		}
		sdk := map[trace.SpanID]*sdkSpan{}
		for _, sp := range rec.Started() {
			e := &sdkSpan{status: sp.Status().Code, parent: sp.Parent(), traceID: sp.SpanContext().TraceID().String()}
			for _, a := range sp.Attributes() {
				if a.Key == attribute.Key("rpc.method") {
					e.method = a.Value.AsString()
				}
			}
			e.hasState = sp.Parent().TraceState().Len() > 0
			sdk[sp.SpanContext().SpanID()] = e
		}
		for _, sp := range rec.Ended() {
			if e := sdk[sp.SpanContext().SpanID()]; e != nil {
				e.ended = true
				e.status = sp.Status().Code
			}
		}

		var outc []string
		for ui, u := range units {
			disp := ref[ui]
			call := hist[u.Call]
			anyFail := false
			for _, d := range disp {
				anyFail = anyFail || d.Failed
			}
			class := "ok"
			if anyFail {
				class = "failed"
			}
			// signature = transport : role of the unit : outcome of the call : what went wrong
			// (call kind and trace-context variant are in the detail, not in the signature)
			where := fmt.Sprintf("C43:%s:%s:%s", transport, u.Role, class)
			desc := fmt.Sprintf("unit %d (%s %s of call %d %s, %s, tracestate=%v, tracing=%v, metrics=%v, global-propagator=%v, ambient-span=%v; %d dispatch(es), %s)",
				ui, transport, u.Role, u.Call, u.Kind.Name, zc43TPNames[call.TP], call.TState, tracing, metrics, globalProp, ambient, len(disp), class)
			var so []string
			if tracing {
				if len(u.spans) != len(disp) {
					x.Failf(where+fmt.Sprintf(":%d-spans-for-%d-dispatches", len(u.spans), len(disp)), "%s: the hook started %d span(s)", desc, len(u.spans))
				}
				for j, sp := range u.spans {
					e := sdk[sp.SpanContext().SpanID()]
					if e == nil {
						e = &sdkSpan{}
					}
					so = append(so, fmt.Sprintf("span(rec=%v ends=%d status=%v remote-parent=%v ambient-parent=%v tracestate=%v)", sp.recordingAtStart, sp.ends, e.status,
						e.parent.IsValid() && e.parent.IsRemote(), e.parent.IsValid() && e.parent.SpanID().String() == zc43AmbientSpanID, e.hasState))
					if !sp.recordingAtStart {
						continue // the statement speaks about recording spans only
					}
					if sp.ends == 0 {
						x.Failf(where+":span-never-ended", "%s: recording span %d was started and never ended", desc, j)
					} else if sp.ends > 1 {
						x.Failf(where+":span-ended-more-than-once", "%s: End() was called %d times on span %d", desc, sp.ends, j)
					}
					if j < len(disp) {
						if disp[j].Failed && e.status != codes.Error {
							x.Failf(where+":failed-call-not-marked-error", "%s: the call failed but the span status is %v", desc, e.status)
						}
						if !disp[j].Failed && e.status == codes.Error {
							x.Failf(where+":ok-call-marked-error", "%s: the call succeeded but the span status is Error", desc)
						}
					}
					if call.TP == zc43TPValid {
						if !e.parent.IsValid() || e.parent.SpanID().String() != zc43SpanID(u.Call) || e.traceID != zc43TraceID(u.Call) {
							what := ":not-parented-on-traceparent"
							if ambient && e.parent.IsValid() && e.parent.SpanID().String() == zc43AmbientSpanID {
								what = ":parented-on-ambient-span-instead-of-traceparent"
							}
							x.Failf(where+what, "%s: sent traceparent %s but the span has trace id %s and parent span id %s",
								desc, zc43Traceparent(call.TP, u.Call), e.traceID, e.parent.SpanID())
						}
					}
				}
			} else if len(u.spans) != 0 {
				so = append(so, fmt.Sprintf("spans-with-tracing-off=%d", len(u.spans)))
			}
			var mo []string
			if metrics {
				total := int64(0)
				got := map[string]int64{}
				for set, d := range u.countDelta {
					total += d
					got[zc43Attr(set, "status")] += d
					mo = append(mo, fmt.Sprintf("%s/%s/%s+%d", zc43Attr(set, "rpc.method"), zc43Attr(set, "rpc.vgi_rpc.method_type"), zc43Attr(set, "status"), d))
				}
				sort.Strings(mo)
				want := map[string]int64{}
				for _, d := range disp {
					if d.Failed {
						want["error"]++
					} else {
						want["ok"]++
					}
				}
				if total != int64(len(disp)) {
					x.Failf(where+fmt.Sprintf(":request-counter-moved-by-%d-for-%d-dispatches", total, len(disp)), "%s: rpc.server.requests changed by %v", desc, mo)
				} else if got["ok"] != want["ok"] || got["error"] != want["error"] {
					x.Failf(where+":request-counter-status-mismatch", "%s: rpc.server.requests changed by %v, wanted status counts %v", desc, mo, want)
				}
			} else if len(u.countDelta) != 0 {
				mo = append(mo, "counter-moved-with-metrics-off")
			}
			// what the code did (no echo of the inputs): response, dispatches, spans, counter
			outc = append(outc, fmt.Sprintf("%s resp-failed=%v parse=%v disp=%d/%s %v %v", u.Role, u.Resp.failed, u.Resp.parseOK, len(disp), class, so, mo))
			x.Note("unit %d: %s", ui, desc)
		}
		x.Outcome("%s | %s", transport, strings.Join(outc, " ; "))
	})
}

// third space: failures by the dynamic type of the error value (a handler may return any error:
// pointer, string-, int-, uintptr-, func- or struct-based, wrapped, joined) from a unary handler, a
// stream init and an exchange turn
func zc43ErrValueSpace(t *testing.T) {
	zc43Explore(t, "otel-error-value-types", zc43ErrKinds(), venum.QT(1, 2), []int{zc43TPAbsent, zc43TPValid}, false)
}

func TestVerif_C43(t *testing.T) {
	venum.Begin("C43")
	defer venum.Finish(t)
	// main space: explicit OtelConfig.Propagator
	zc43Explore(t, "otel-histories", zc43Kinds, venum.QT(2, 3), []int{zc43TPAbsent, zc43TPValid, zc43TPMalformed}, false)
	// second space: unsampled parents (non-recording spans) and the propagator resolved from the
	// global default (OtelConfig.Propagator nil, otel.SetTextMapPropagator(TraceContext{}))
	zc43Explore(t, "otel-unsampled-parent-global-propagator", zc43Kinds, venum.QT(1, 2), []int{zc43TPUnsampled, zc43TPValid}, true)
	zc43ErrValueSpace(t)
}
