//go:build verif

// C33 (S3 part): every Upload through the S3 backend writes to an object key no other
// upload has used.
//
// The REAL vgis3.NewS3Storage / (*S3Storage).Upload run against an in-process fake S3
// endpoint (loopback httptest server reached through S3Config.EndpointURL, static
// credentials from the environment, no network).  The module's `time` import is the
// virtual clock (rewriter -mode time), so the clock reading seen by the key generator is
// an environment answer owned by the explorer.
package vgis3

import (
	"context"
	"crypto/rand"
	"fmt"
	"io"
	"net/http"
	"net/http/httptest"
	"net/url"
	"os"
	"sort"
	"strings"
	"sync"
	"testing"
	"time"

	"github.com/aws/aws-sdk-go-v2/service/s3"
	"github.com/aws/smithy-go/middleware"

	"github.com/Query-farm/vgi-rpc-go/vgirpc/s3/internal/verif/venum"
	"github.com/Query-farm/vgi-rpc-go/vgirpc/s3/internal/verif/vsched"
)

// zc33Put is one PutObject seen by the fake endpoint.
type zc33Put struct {
	Bucket, Key string
	Body        string
}

type zc33FakeS3 struct {
	mu   sync.Mutex
	puts []zc33Put
	bad  []string // requests the fake did not understand
	// tooLong counts PUTs refused because the key exceeds the store's limit (like S3's
	// KeyTooLongError: nothing is written).
	tooLong int
	// failNext > 0: the next PUT is answered with this status and nothing is written (an
	// environment fault: the store refuses one request); refused counts them.
	failNext int
	refused  int
}

// zc33MaxKey is the object-key limit the fake enforces, as S3 does (1024 bytes of UTF-8).
const zc33MaxKey = 1024

func (f *zc33FakeS3) reset() {
	f.mu.Lock()
	f.puts, f.bad, f.tooLong, f.failNext, f.refused = nil, nil, 0, 0, 0
	f.mu.Unlock()
}

func (f *zc33FakeS3) ServeHTTP(w http.ResponseWriter, r *http.Request) {
	body, _ := io.ReadAll(r.Body)
	f.mu.Lock()
	defer f.mu.Unlock()
	// path-style addressing: /<bucket>/<key...>
	p := strings.TrimPrefix(r.URL.Path, "/")
	i := strings.IndexByte(p, '/')
	if r.Method != http.MethodPut || i <= 0 || i == len(p)-1 {
		f.bad = append(f.bad, r.Method+" "+r.URL.Path)
		w.WriteHeader(http.StatusBadRequest)
		return
	}
	if f.failNext > 0 {
		code := f.failNext
		f.failNext = 0
		f.refused++
		w.Header().Set("Content-Type", "application/xml")
		w.WriteHeader(code)
		io.WriteString(w, `<?xml version="1.0" encoding="UTF-8"?><Error><Code>AccessDenied</Code><Message>Access Denied</Message></Error>`)
		return
	}
	if len(p[i+1:]) > zc33MaxKey {
		f.tooLong++
		w.Header().Set("Content-Type", "application/xml")
		w.WriteHeader(http.StatusBadRequest)
		io.WriteString(w, `<?xml version="1.0" encoding="UTF-8"?><Error><Code>KeyTooLongError</Code><Message>Your key is too long</Message></Error>`)
		return
	}
	f.puts = append(f.puts, zc33Put{Bucket: p[:i], Key: p[i+1:], Body: string(body)})
	w.Header().Set("ETag", `"0123456789abcdef0123456789abcdef"`)
	w.WriteHeader(http.StatusOK)
}

// zc33Stream is an entropy source that hands out pairwise distinct 16-byte blocks: block k
// (k = 1, 2, …) carries the number k at byte Pos (all other bytes zero), or in every byte when
// Pos < 0.  Bits that a version-4 UUID overwrites (high nibble of byte 6, top two bits of
// byte 8) are never used to tell blocks apart.  It stands in for crypto/rand.Reader while an
// Upload runs, so a key generator that draws from crypto/rand is explored on enumerated
// entropy as well (the generator of the unchanged tree reads no entropy at all).
type zc33Stream struct {
	Pos    int
	blocks int
	// reads counts the top-level Read calls; hook (if set) runs inside every top-level Read,
	// once before and once after the bytes are delivered. Reads made from inside the hook are
	// served without counting and without running the hook again.
	epoch  int
	reads  int
	hook   func(read int, after bool)
	inHook bool
}

func zc33Cap(i int) int {
	switch i {
	case 6:
		return 4
	case 8:
		return 6
	}
	return 8
}

// zc33Epochs numbers the streams of this process. Every block also carries its stream's
// epoch (in bytes away from the counter), so blocks handed out in DIFFERENT executions are
// distinct as well: a generator that keeps a process-wide batch of random bytes may still hold
// bytes from an earlier execution's stream, and those must not repeat the values of this one.
// Inside one execution the epoch is constant, so blocks still differ only at byte Pos.
var zc33Epochs int

func zc33NewStream(pos int) *zc33Stream {
	zc33Epochs++
	return &zc33Stream{Pos: pos, epoch: zc33Epochs}
}

// zc33PutBits writes v into b starting at byte i (little endian, skipping bits a v4 UUID overwrites).
func zc33PutBits(b []byte, i, v int, xor bool) {
	for ; v > 0; i = (i + 1) % 16 {
		c := zc33Cap(i)
		d := byte(v & (1<<c - 1))
		if xor {
			b[i] ^= d
		} else {
			b[i] |= d
		}
		v >>= c
	}
}

func (s *zc33Stream) block(k int) []byte {
	b := make([]byte, 16)
	if s.Pos < 0 {
		for i := range b {
			b[i] = byte(k)
		}
		b[1] ^= byte(k >> 8)
		zc33PutBits(b, 9, s.epoch, true) // bytes 9.. (b[0] gives k, so the XOR is invertible)
		return b
	}
	zc33PutBits(b, s.Pos, k, false)              // bytes Pos, Pos+1, ...
	zc33PutBits(b, (s.Pos+8)%16, s.epoch, false) // bytes Pos+8, ... (never reaches the counter's)
	return b
}

func (s *zc33Stream) Read(p []byte) (int, error) {
	idx := -1
	if !s.inHook && s.hook != nil {
		idx = s.reads
		s.reads++
		s.inHook = true
		s.hook(idx, false)
		s.inHook = false
	}
	// every Read starts at a fresh block, so a reader never sees part of an earlier block
	for off := 0; off < len(p); off += 16 {
		s.blocks++
		copy(p[off:], s.block(s.blocks))
	}
	if idx >= 0 {
		s.inHook = true
		s.hook(idx, true)
		s.inHook = false
	}
	return len(p), nil
}

func (s *zc33Stream) name() string {
	if s.Pos < 0 {
		return "entropy-differs-in-all-bytes"
	}
	return fmt.Sprintf("entropy-differs-in-byte-%d", s.Pos)
}

// zc33Steps is the clock alphabet: how far the clock has moved since the previous upload.
var zc33Steps = []time.Duration{0, 1 * time.Nanosecond, 999 * time.Nanosecond, time.Microsecond, time.Millisecond}
var zc33StepNames = []string{"+0", "+1ns", "+999ns", "+1us", "+1ms"}

// zc33Ctl runs uploads as cooperative threads: each upload is a goroutine that parks at the two
// scheduling points inside PutObject ("request filled in, not yet serialized": an Initialize-step
// middleware; "request serialized, not yet sent": the HTTP client) and only runs while the
// controller has resumed it, so exactly one thread runs at a time and the interleaving is the
// explorer's choice. Outside a threaded section the points do nothing.
type zc33Ctl struct{ cur *zc33Thread }

type zc33Thread struct {
	resume chan struct{}
	parked chan string
	done   bool
	err    error
	url    string   // what Upload returned
	sent   []string // object keys of the PUT requests this thread handed to the HTTP client
}

func (c *zc33Ctl) point(name string) {
	t := c.cur
	if t == nil {
		return
	}
	t.parked <- name
	<-t.resume
}

func (c *zc33Ctl) spawn(run func() (string, error)) *zc33Thread {
	t := &zc33Thread{resume: make(chan struct{}), parked: make(chan string)}
	go func() {
		<-t.resume
		t.url, t.err = run()
		t.parked <- "done"
	}()
	return t
}

// advance lets t run to its next point (or to completion) and returns the point's name.
func (c *zc33Ctl) advance(t *zc33Thread) string {
	c.cur = t
	t.resume <- struct{}{}
	ev := <-t.parked
	c.cur = nil
	if ev == "done" {
		t.done = true
	}
	return ev
}

type zc33HTTP struct {
	inner s3.HTTPClient
	ctl   *zc33Ctl
}

func (h zc33HTTP) Do(r *http.Request) (*http.Response, error) {
	if t := h.ctl.cur; t != nil && r.Method == http.MethodPut {
		t.sent = append(t.sent, strings.TrimPrefix(r.URL.Path, "/bkt/"))
	}
	h.ctl.point("serialized")
	return h.inner.Do(r)
}

// zc33WithPoints returns a copy of the storage whose client is the constructor's client (same
// options: endpoint, region, credentials) plus the two scheduling points (the constructor's retry behaviour is kept:
// a send that fails because two requests share one body is retried by the SDK, as in production).
func zc33WithPoints(st *S3Storage, ctl *zc33Ctl) *S3Storage {
	cp := *st
	cp.client = s3.New(st.client.Options(), func(o *s3.Options) {
		o.HTTPClient = zc33HTTP{inner: o.HTTPClient, ctl: ctl}
		o.APIOptions = append(o.APIOptions, func(stack *middleware.Stack) error {
			return stack.Initialize.Add(middleware.InitializeMiddlewareFunc("zc33RequestFilled",
				func(ctx context.Context, in middleware.InitializeInput, next middleware.InitializeHandler) (middleware.InitializeOutput, middleware.Metadata, error) {
					ctl.point("filled")
					return next.HandleInitialize(ctx, in)
				}), middleware.After)
		})
	})
	return &cp
}

func TestVerif_C33_S3(t *testing.T) {
	venum.Begin("C33")
	defer venum.Finish(t)

	fake := &zc33FakeS3{}
	srv := httptest.NewServer(fake)
	defer srv.Close()
	// Credentials/region come from the environment; nothing may be read from the
	// machine's AWS files or from the instance metadata service.
	for k, v := range map[string]string{
		"AWS_ACCESS_KEY_ID": "AKIDVERIFVERIFVERIF0", "AWS_SECRET_ACCESS_KEY": "verif-secret-key",
		"AWS_SESSION_TOKEN": "", "AWS_PROFILE": "", "AWS_EC2_METADATA_DISABLED": "true",
		"AWS_CONFIG_FILE": os.DevNull, "AWS_SHARED_CREDENTIALS_FILE": os.DevNull,
		"AWS_ENDPOINT_URL": "", "AWS_ENDPOINT_URL_S3": "", "AWS_REGION": "", "AWS_DEFAULT_REGION": "",
		"NO_PROXY": "127.0.0.1,localhost", "no_proxy": "127.0.0.1,localhost",
	} {
		if v == "" {
			os.Unsetenv(k)
		} else {
			t.Setenv(k, v)
		}
	}
	base := time.Unix(1_700_000_000, 0).UTC()
	phases := venum.QT([]time.Duration{0, 999}, []time.Duration{0, 500, 999})
	positions := venum.QT([]int{15, -1}, []int{0, 15, -1})
	realRand := rand.Reader
	// The storages are built by the REAL constructor, once per process and prefix
	// (config.LoadDefaultConfig costs ~12 ms); every execution works on its own copy.
	// TWO handles per prefix, each from its own constructor call, same bucket and prefix: uploads
	// of one execution go through either of them, keys must be distinct across both.
	tmpl := map[string][2]*S3Storage{}
	for _, p := range []string{"", "p/"} {
		var pair [2]*S3Storage
		for h := range pair {
			st, err := NewS3Storage("bkt", S3Config{Prefix: p, Region: "us-east-1", EndpointURL: srv.URL})
			if err != nil {
				t.Fatalf("NewS3Storage: %v", err)
			}
			pair[h] = st
		}
		tmpl[p] = pair
	}

	body := func(x *venum.X, twoHandles bool, maxN int) {
		cfgSel := x.Choose(2*len(phases)*len(positions), "config(prefix x clock-phase x entropy-stream)")
		prefix := []string{"", "p/"}[cfgSel%2]
		phase := phases[cfgSel/2%len(phases)] // position of the first reading inside its microsecond
		stream := zc33NewStream(positions[cfgSel/2/len(phases)])
		n := 1 + x.Choose(maxN, "uploads")

		fake.reset()
		vsched.FreezeClock(base.Add(phase))
		defer vsched.UnfreezeClock()
		// fresh values per execution (copies of the constructor results, so per-handle state such
		// as a sequence counter starts from its initial value in every execution)
		stA, stB := *tmpl[prefix][0], *tmpl[prefix][1]
		handles := [2]*S3Storage{&stA, &stB}
		wantPrefix := prefix
		if wantPrefix == "" {
			wantPrefix = "vgi-rpc/"
		}
		type up struct {
			at     time.Time
			key    string
			step   string
			blocks int // entropy blocks read from crypto/rand while this upload ran
			handle int
		}
		var ups []up
		for i := 0; i < n; i++ {
			// which handle performs upload i; the first upload is always handle 0 (the two handles
			// are interchangeable, so this loses nothing)
			h := 0
			if twoHandles && i > 0 {
				h = x.Choose(2, fmt.Sprintf("handle-of-upload-%d", i))
			}
			st := handles[h]
			d := x.Deviate(len(zc33Steps), fmt.Sprintf("clock-before-upload-%d", i))
			vsched.Advance(zc33Steps[d])
			at := vsched.Now()
			payload := "same-payload" // identical data is the worst case for a key derived from the data
			enc := []string{"", "zstd"}[i%2]
			before, b0 := len(fake.puts), stream.blocks
			rand.Reader = stream
			u, err := st.Upload([]byte(payload), nil, enc)
			rand.Reader = realRand
			if err != nil {
				venum.EngineError("Upload %d failed against the fake endpoint: %v (bad=%v)", i, err, fake.bad)
				return
			}
			if len(fake.puts) != before+1 {
				venum.EngineError("Upload %d: %d PutObject requests reached the fake endpoint (bad=%v)", i, len(fake.puts)-before, fake.bad)
				return
			}
			p := fake.puts[before]
			if p.Bucket != "bkt" || p.Body != payload {
				venum.EngineError("Upload %d: fake endpoint saw bucket=%q body=%q", i, p.Bucket, p.Body)
				return
			}
			// the presigned URL must name the object that was written (harness sanity only)
			if pu, perr := url.Parse(u); perr != nil || strings.TrimPrefix(pu.Path, "/bkt/") != p.Key {
				x.Note("upload %d: presigned URL %q does not name key %q", i, u, p.Key)
			}
			ups = append(ups, up{at: at, key: p.Key, step: zc33StepNames[d], blocks: stream.blocks - b0, handle: h})
		}

		// Oracle: keys pairwise distinct.
		classes := map[string][]int{}
		for i, u := range ups {
			classes[u.key] = append(classes[u.key], i)
		}
		var part []string
		for _, idx := range classes {
			part = append(part, fmt.Sprint(idx))
		}
		sort.Strings(part)
		for i := 0; i < len(ups); i++ {
			for j := i + 1; j < len(ups); j++ {
				if ups[i].key != ups[j].key {
					continue
				}
				gap := ups[j].at.Sub(ups[i].at)
				// The class is a function of the choice list only (clock distance; the entropy
				// stream when the clock cannot explain the collision). It must not depend on
				// whether THIS execution saw an entropy read: a generator with process-wide
				// state (a batch of random bytes, say) reads entropy in some executions only.
				class := "clock-apart>=1us:" + stream.name()
				if gap == 0 {
					class = "same-instant"
				} else if ups[i].at.Truncate(time.Microsecond).Equal(ups[j].at.Truncate(time.Microsecond)) {
					class = "same-microsecond"
				}
				if ups[i].handle != ups[j].handle {
					class = "two-handles:" + class
				}
				x.Failf("C33:s3:key-reused:"+class,
					"uploads #%d (handle %d) and #%d (handle %d) (clock readings %d ns apart: %s vs %s; entropy blocks read: %d and %d) both wrote object key %q: upload #%d overwrote the object written by upload #%d",
					i, ups[i].handle, j, ups[j].handle, gap.Nanoseconds(), ups[i].at.Format("15:04:05.000000000"), ups[j].at.Format("15:04:05.000000000"),
					ups[i].blocks, ups[j].blocks, ups[i].key, j, i)
			}
		}
		// Outcome: what the code did, without the key text of a (possibly random) generator:
		// number of uploads, equality partition of the keys, prefix and shape of the keys.
		shape := ""
		if len(ups) > 0 {
			k := ups[0].key
			shape = fmt.Sprintf("prefix-ok=%v len=%d", strings.HasPrefix(k, wantPrefix), len(k)-len(wantPrefix))
		}
		x.Outcome("n=%d prefix=%q partition=%v %s", n, prefix, part, shape)
	}
	// Store faults and overlapping uploads. History: 0..H earlier uploads, each of which the store
	// may refuse (environment answer: 403, nothing written; the Upload error is then expected),
	// followed by TWO uploads through the two handles running as cooperative threads with the
	// scheduling points "request filled in" and "request serialized" inside PutObject; every
	// interleaving of the two threads' three segments is enumerated (20 schedules). Keys written
	// by the store in the execution must be pairwise distinct.
	ctl := &zc33Ctl{}
	pointTmpl := [2]*S3Storage{zc33WithPoints(tmpl[""][0], ctl), zc33WithPoints(tmpl[""][1], ctl)}
	// The histories are ordered so that those with a refused upload come first and the space runs
	// before every other space of this process, in ONE process (not sharded): a backend that keeps
	// process-wide state (a free list, a cache) is then driven from its initial state through
	// "fault first", and whatever state that leaves is the same for an execution and for its
	// confirmation re-runs. (The verdict itself only looks at keys received in the execution.)
	faultBody := func(x *venum.X, maxPrior int) {
		var hists []string
		for n := 1; n <= maxPrior; n++ {
			for m := 0; m < 1<<n; m++ {
				h := ""
				for i := 0; i < n; i++ {
					h += string("RW"[m>>i&1]) // R: refused by the store, W: written
				}
				hists = append(hists, h)
			}
		}
		sort.SliceStable(hists, func(a, b int) bool { return strings.Contains(hists[a], "R") && !strings.Contains(hists[b], "R") })
		hists = append(hists, "")
		plan := hists[x.Choose(len(hists), "earlier-uploads (R = the store answers 403, W = written)")]
		nPrior := len(plan)
		fake.reset()
		ctl.cur = nil
		vsched.FreezeClock(base)
		defer vsched.UnfreezeClock()
		stream := zc33NewStream(15)
		rand.Reader = stream
		defer func() { rand.Reader = realRand }()
		stA, stB := *pointTmpl[0], *pointTmpl[1]
		handles := [2]*S3Storage{&stA, &stB}
		var hist []string
		anyRefused := false
		for i := 0; i < nPrior; i++ {
			refuse := plan[i] == 'R'
			if refuse {
				fake.failNext = 403
				anyRefused = true
			}
			before, ref := len(fake.puts), fake.refused
			_, err := handles[i%2].Upload([]byte("same-payload"), nil, "")
			switch {
			case !refuse && err == nil && len(fake.puts) == before+1:
				hist = append(hist, "written")
			case refuse && err != nil && len(fake.puts) == before && fake.refused == ref+1:
				hist = append(hist, "refused-by-store")
			default:
				// Not an engine error: a backend with process-wide state corrupted by an earlier
				// execution may answer oddly here; the verdict below only looks at the keys the
				// store received in this execution.
				hist = append(hist, "anomalous")
				x.Note("earlier upload %d: refuse=%v err=%v written=%d refused=%d (bad=%v)", i, refuse, err, len(fake.puts)-before, fake.refused-ref, fake.bad)
			}
		}
		// two overlapping uploads
		// the two overlapping uploads go through the two handles, or both through the SAME handle
		sameHandle := x.Bool("both overlapping uploads use the same handle")
		handleMode := "two-handles"
		if sameHandle {
			handleMode = "same-handle"
		}
		threads := [2]*zc33Thread{}
		for h := range threads {
			st := handles[h]
			if sameHandle {
				st = handles[0]
			}
			threads[h] = ctl.spawn(func() (string, error) {
				return st.Upload([]byte("same-payload"), nil, "")
			})
		}
		var sched []string
		for step := 0; ; step++ {
			var alive []int
			for h, th := range threads {
				if !th.done {
					alive = append(alive, h)
				}
			}
			if len(alive) == 0 {
				break
			}
			h := alive[0]
			if len(alive) > 1 {
				h = alive[x.Choose(2, fmt.Sprintf("run-thread@step%d", step))]
			}
			sched = append(sched, fmt.Sprintf("%d:%s", h, ctl.advance(threads[h])))
		}
		rand.Reader = realRand
		x.Note("schedule %v", sched)
		errs := 0
		for h, th := range threads {
			if th.err != nil {
				errs++
				x.Note("overlapping upload through handle %d failed: %v", h, th.err)
			}
		}
		first := map[string]int{}
		collisions := 0
		for j, pu := range fake.puts {
			i, seen := first[pu.Key]
			if !seen {
				first[pu.Key] = j
				continue
			}
			collisions++
			class := "no-refusal-in-this-execution"
			if anyRefused {
				class = "after-a-refused-upload"
			}
			x.Failf("C33:s3:key-reused:overlapping-uploads:"+class,
				"history %v, then two uploads overlapped with schedule %v: PUT #%d and PUT #%d received by the store carry the same object key %q (the later one overwrote the earlier one)",
				hist, sched, i, j, pu.Key)
		}
		// Each successful Upload hands its caller a URL; the object it names must be the object THAT
		// upload wrote (otherwise the caller reads another call's payload: from where the caller
		// stands its key was reused), and no two uploads may be handed the same key.
		mismatches := 0
		handed := map[string]int{}
		for h, th := range threads {
			if th.err != nil {
				continue
			}
			pu, perr := url.Parse(th.url)
			if perr != nil {
				continue
			}
			got := strings.TrimPrefix(pu.Path, "/bkt/")
			own := false
			for _, k := range th.sent {
				own = own || k == got
			}
			class := "no-refusal-in-this-execution"
			if anyRefused {
				class = "after-a-refused-upload"
			}
			if !own {
				mismatches++
				x.Failf("C33:s3:returned-key-is-not-the-written-key:overlapping-uploads:"+handleMode+":"+class,
					"history %v, two uploads (%s) overlapped with schedule %v: overlapping upload %d wrote object key(s) %v but returned a URL for %q",
					hist, handleMode, sched, h, th.sent, got)
			}
			if o, dup := handed[got]; dup {
				x.Failf("C33:s3:key-reused:returned-to-two-uploads:overlapping-uploads:"+handleMode+":"+class,
					"history %v, two uploads (%s) overlapped with schedule %v: overlapping uploads %d and %d were both handed object key %q",
					hist, handleMode, sched, o, h, got)
			}
			handed[got] = h
		}
		x.Outcome("faults hist=%v written=%d upload-errors=%d collisions=%d returned-key-mismatches=%d", hist, len(fake.puts), errs, collisions, mismatches)
	}
	venum.Explore(t, venum.Cfg{Name: "s3-store-faults-overlapping-uploads", CheckDeterminism: true},
		func(x *venum.X) { faultBody(x, venum.QT(1, 3)) })

	// Overlap on the entropy seam: a LONG sequence of uploads through handle 0 (long enough to
	// cross the boundary of a process-wide batch of up to 64 keys twice from any starting
	// offset), during which ONE entropy read — the k-th top-level Read of the swapped
	// crypto/rand.Reader seen in this execution, k enumerated — runs a second upload through
	// handle 1 re-entrantly, either before or after the bytes are delivered. This is "another
	// upload overlaps this upload's entropy read" without a scheduler. The verdict depends only
	// on keys written inside the execution, and the signature only on which uploads collided
	// relative to the overlapped one, so process-wide generator state left behind by earlier
	// executions cannot make the result irreproducible.
	const longN = 130
	overlapBody := func(x *venum.X, nOverlap int, cfgs [][2]int) {
		ov := x.Choose(nOverlap+1, "overlapped-entropy-read-index (last = no overlap)")
		after := false
		if ov < nOverlap {
			after = x.Bool("second upload runs after (not before) the bytes are delivered")
		} else {
			ov = -1 // no read is overlapped
		}
		c := cfgs[x.Choose(len(cfgs), "config(prefix x entropy-stream)")]
		prefix := []string{"", "p/"}[c[0]]
		stream := zc33NewStream(c[1])
		fake.reset()
		vsched.FreezeClock(base)
		defer vsched.UnfreezeClock()
		stA, stB := *tmpl[prefix][0], *tmpl[prefix][1]
		handles := [2]*S3Storage{&stA, &stB}
		type up struct {
			key    string
			nested bool
			seq    int // index of the sequential upload (for the nested one: its host)
		}
		var ups []up
		broken := false
		upload := func(h int) (string, bool) {
			_, err := handles[h].Upload([]byte("same-payload"), nil, "")
			if err != nil || len(fake.puts) == 0 {
				venum.EngineError("overlap space: Upload failed against the fake endpoint: %v (bad=%v)", err, fake.bad)
				broken = true
				return "", false
			}
			// a nested upload completes before its host's PutObject is sent, so an upload's
			// own object is always the most recent one when Upload returns
			return fake.puts[len(fake.puts)-1].Key, true
		}
		cur, happened := 0, false
		stream.hook = func(read int, aft bool) {
			if read != ov || aft != after || happened || broken {
				return
			}
			happened = true
			if k, ok := upload(1); ok {
				ups = append(ups, up{key: k, nested: true, seq: cur})
			}
		}
		rand.Reader = stream
		defer func() { rand.Reader = realRand }()
		for cur = 0; cur < longN && !broken; cur++ {
			if k, ok := upload(0); ok {
				ups = append(ups, up{key: k, seq: cur})
			}
		}
		rand.Reader = realRand
		if broken {
			return
		}
		if want := longN + map[bool]int{true: 1}[happened]; len(fake.puts) != want || len(ups) != want {
			venum.EngineError("overlap space: %d objects written, %d recorded, want %d (bad=%v)", len(fake.puts), len(ups), want, fake.bad)
			return
		}
		first := map[string]int{}
		collisions := 0
		for j, u := range ups {
			i, seen := first[u.key]
			if !seen {
				first[u.key] = j
				continue
			}
			collisions++
			a, b := ups[i], u
			rel := "between-sequential-uploads"
			if a.nested || b.nested {
				n, o := a, b
				if b.nested {
					n, o = b, a
				}
				switch {
				case o.seq < n.seq:
					rel = "overlapping-upload-vs-earlier-upload"
				case o.seq == n.seq:
					rel = "overlapping-upload-vs-overlapped-upload"
				default:
					rel = "overlapping-upload-vs-later-upload"
				}
			}
			x.Failf("C33:s3:key-reused:overlapped-entropy-read:"+rel,
				"%d uploads through handle 0; while its entropy read #%d (of this execution) was in progress (%s the bytes were delivered) upload #%d was overlapped by an upload through handle 1; uploads [seq %d nested=%v] and [seq %d nested=%v] both wrote object key %q",
				longN, ov, map[bool]string{false: "before", true: "after"}[after], func() int {
					for _, v := range ups {
						if v.nested {
							return v.seq
						}
					}
					return -1
				}(), a.seq, a.nested, b.seq, b.nested, u.key)
		}
		wantPrefix := prefix
		if wantPrefix == "" {
			wantPrefix = "vgi-rpc/"
		}
		x.Outcome("long uploads=%d overlap-happened=%v collisions=%d prefix-ok=%v len=%d", len(ups), happened, collisions,
			strings.HasPrefix(ups[0].key, wantPrefix), len(ups[0].key)-len(wantPrefix))
	}
	// quick: the first 4 entropy reads of the execution; thorough: every one of the 130
	venum.Explore(t, venum.Cfg{Name: "s3-overlapped-entropy-read", Shardable: true, CheckDeterminism: true},
		func(x *venum.X) {
			overlapBody(x, venum.QT(4, longN), venum.QT([][2]int{{0, 15}}, [][2]int{{0, 15}, {1, -1}, {0, 0}}))
		})

	// Boundary-length prefixes: the configured Prefix is as long as the store's key limit allows,
	// or longer. The fake refuses keys over the limit exactly like S3 (nothing is written, Upload
	// reports an error — allowed: the statement is about keys that ARE written). Whatever the
	// backend does with such a prefix, the keys it does write must still be pairwise distinct.
	const keyTail = 36 // length of the unique suffix the unchanged tree appends (a UUID)
	longLens := venum.QT(
		[]int{zc33MaxKey - keyTail - 1, zc33MaxKey - keyTail, zc33MaxKey - keyTail + 1, zc33MaxKey - 24, zc33MaxKey - 3, zc33MaxKey - 1, zc33MaxKey, zc33MaxKey + 1, zc33MaxKey + 76},
		func() []int {
			var l []int
			for n := zc33MaxKey - keyTail - 12; n <= zc33MaxKey+2; n++ { // every length across the boundary
				l = append(l, n)
			}
			return append(l, zc33MaxKey+76, 2*zc33MaxKey)
		}())
	longTmpl := map[int][2]*S3Storage{}
	longBody := func(x *venum.X, maxN int, positions []int) {
		plen := longLens[x.Choose(len(longLens), "prefix-length")]
		stream := zc33NewStream(positions[x.Choose(len(positions), "entropy-stream")])
		n := 1 + x.Choose(maxN, "uploads")
		pair, ok := longTmpl[plen]
		if !ok {
			prefix := strings.Repeat("a", plen-1) + "/"
			for h := range pair {
				st, err := NewS3Storage("bkt", S3Config{Prefix: prefix, Region: "us-east-1", EndpointURL: srv.URL})
				if err != nil {
					venum.EngineError("NewS3Storage(prefix of %d bytes): %v", plen, err)
					return
				}
				pair[h] = st
			}
			longTmpl[plen] = pair
		}
		fake.reset()
		vsched.FreezeClock(base)
		defer vsched.UnfreezeClock()
		stA, stB := *pair[0], *pair[1]
		handles := [2]*S3Storage{&stA, &stB}
		type up struct {
			key    string
			handle int
		}
		var ups []up
		var pattern []string
		rand.Reader = stream
		defer func() { rand.Reader = realRand }()
		for i := 0; i < n; i++ {
			h := 0
			if i > 0 {
				h = x.Choose(2, fmt.Sprintf("handle-of-upload-%d", i))
			}
			before, rej := len(fake.puts), fake.tooLong
			_, err := handles[h].Upload([]byte("same-payload"), nil, "")
			wrote := len(fake.puts) - before
			switch {
			case err == nil && wrote == 1:
				ups = append(ups, up{key: fake.puts[before].Key, handle: h})
				pattern = append(pattern, "written")
			case err != nil && wrote == 0 && fake.tooLong > rej:
				pattern = append(pattern, "refused-key-too-long") // nothing written: nothing to compare
			default:
				rand.Reader = realRand
				venum.EngineError("long-prefix space: Upload %d: err=%v, %d objects written, refused=%d (bad=%v)", i, err, wrote, fake.tooLong-rej, fake.bad)
				return
			}
		}
		rand.Reader = realRand
		class := "prefix-leaves-room-for-the-whole-key"
		switch {
		case plen >= zc33MaxKey:
			class = "prefix-fills-the-key-limit"
		case plen+keyTail > zc33MaxKey:
			class = "prefix-leaves-room-for-part-of-the-key"
		}
		first := map[string]int{}
		collisions := 0
		for j, u := range ups {
			i, seen := first[u.key]
			if !seen {
				first[u.key] = j
				continue
			}
			collisions++
			two := ""
			if ups[i].handle != u.handle {
				two = "two-handles:"
			}
			x.Failf("C33:s3:key-reused:long-prefix:"+two+class,
				"Prefix of %d bytes (key limit %d, stream %s): written uploads #%d (handle %d) and #%d (handle %d) both wrote a %d-byte object key ending in %q: the later upload overwrote the earlier one",
				plen, zc33MaxKey, stream.name(), i, ups[i].handle, j, u.handle, len(u.key), u.key[len(u.key)-min(len(u.key), 40):])
		}
		x.Outcome("long-prefix %s uploads=%v collisions=%d", class, pattern, collisions)
	}
	venum.Explore(t, venum.Cfg{Name: "s3-boundary-length-prefix", Shardable: true, CheckDeterminism: true},
		func(x *venum.X) { longBody(x, venum.QT(3, 4), venum.QT([]int{15, 0}, []int{15, 0, -1})) })

	// every interleaving of the two handles, sequences <=3 (quick) / <=4 (thorough)
	venum.Explore(t, venum.Cfg{Name: "s3-two-handle-sequences", Shardable: true, DevBound: -1, CheckDeterminism: true},
		func(x *venum.X) { body(x, true, venum.QT(3, 4)) })
	// thorough: one handle, sequences <=5 (the quick tier's single-handle sequences are the
	// all-handle-0 assignments of the space above)
	if venum.Thorough() {
		venum.Explore(t, venum.Cfg{Name: "s3-upload-sequences", Shardable: true, DevBound: -1, CheckDeterminism: true},
			func(x *venum.X) { body(x, false, 5) })
	}
}
