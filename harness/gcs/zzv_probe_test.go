//go:build verif

package vgigcs

import (
	"context"
	"crypto/rand"
	"crypto/rsa"
	"crypto/x509"
	"encoding/json"
	"encoding/pem"
	"io"
	"net/http"
	"runtime"
	"net/http/httptest"
	"strings"
	"testing"
	"time"

	"cloud.google.com/go/storage"
	"google.golang.org/api/option"
)

func TestProbe(t *testing.T) {
	srv := httptest.NewServer(http.HandlerFunc(func(w http.ResponseWriter, r *http.Request) {
		b, _ := io.ReadAll(r.Body)
		if len(b) > 300 {
			b = b[:300]
		}
		//t.Logf("REQ %s %s auth=%q body=%q", r.Method, r.URL.String(), r.Header.Get("Authorization") != "", string(b))
		w.Header().Set("Content-Type", "application/json")
		if strings.HasSuffix(r.URL.Path, "/token") {
			w.Write([]byte(`{"access_token":"tok","token_type":"Bearer","expires_in":3600}`))
			return
		}
		w.Write([]byte(`{"bucket":"bkt","name":"x","size":"1"}`))
	}))
	defer srv.Close()
	t.Setenv("STORAGE_EMULATOR_HOST", strings.TrimPrefix(srv.URL, "http://"))
	t.Setenv("GCE_METADATA_HOST", strings.TrimPrefix(srv.URL, "http://"))
	st, err := NewGCSStorage("bkt", GCSConfig{})
	if err != nil {
		t.Fatal(err)
	}
	t.Setenv("STORAGE_EMULATOR_HOST", "")
	k, _ := rsa.GenerateKey(rand.Reader, 1024)
	der, _ := x509.MarshalPKCS8PrivateKey(k)
	pemb := pem.EncodeToMemory(&pem.Block{Type: "PRIVATE KEY", Bytes: der})
	sa, _ := json.Marshal(map[string]string{"type": "service_account", "project_id": "p", "private_key_id": "kid",
		"private_key": string(pemb), "client_email": "verif@p.iam.gserviceaccount.com", "client_id": "1",
		"token_uri": srv.URL + "/token"})
	t0 := time.Now()
	c, err := storage.NewClient(context.Background(), option.WithCredentialsJSON(sa), option.WithEndpoint("http://gcs.invalid/storage/v1/"), option.WithHTTPClient(&http.Client{Transport: rtFunc(func(r *http.Request) (*http.Response, error) {
		rec := httptest.NewRecorder()
		srv.Config.Handler.ServeHTTP(rec, r)
		return rec.Result(), nil
	})}))
	t.Logf("newclient: %v err=%v", time.Since(t0), err)
	st.client = c
	ballast := make([]byte, 256<<20)
	defer runtime.KeepAlive(ballast)
	tt := time.Now()
	defer func() { t.Logf("total %v", time.Since(tt)) }()
	for i := 0; i < 600; i++ {
		t0 = time.Now()
		u, err := st.Upload([]byte("hello"), nil, "zstd")
		if len(u) > 150 {
			u = u[:150]
		}
		if d := time.Since(t0); d > 200*time.Millisecond || err != nil {
			t.Logf("upload: %v url=%q err=%v", time.Since(t0), u, err)
		}
	}
}

type rtFunc func(*http.Request) (*http.Response, error)

func (f rtFunc) RoundTrip(r *http.Request) (*http.Response, error) { return f(r) }
