//go:build verif

// C33 (GCS part): every Upload through the GCS backend writes to an object name no other
// upload has used.
//
// The REAL (*GCSStorage).Upload runs against an in-process fake GCS JSON endpoint (in-memory
// http.RoundTripper handed to the real cloud.google.com/go/storage client; no sockets, no
// network).  The storage object is built by the REAL NewGCSStorage (emulator mode, so no
// credentials are looked up); only its client field is then swapped for a client that (a)
// talks to the fake endpoint and (b) carries a throw-away service-account key so the real
// SignedURL step at the end of Upload succeeds offline.  The entropy source of
// github.com/google/uuid is an enumerated stream of pairwise distinct 16-byte values
// (uuid.SetRand) and the module's `time` import is the virtual clock.
package vgigcs

import (
	"context"
	"crypto/rand"
	"crypto/rsa"
	"crypto/x509"
	"encoding/json"
	"encoding/pem"
	"fmt"
	"io"
	"mime"
	"mime/multipart"
	"net/http"
	"net/http/httptest"
	"net/url"
	"os"
	"runtime"
	"sort"
	"strings"
	"testing"
	"time"

	"cloud.google.com/go/storage"
	"github.com/google/uuid"
	"google.golang.org/api/option"

	"github.com/Query-farm/vgi-rpc-go/vgirpc/gcs/internal/verif/venum"
	"github.com/Query-farm/vgi-rpc-go/vgirpc/gcs/internal/verif/vsched"
)

type zc33Obj struct {
	Bucket, Name, Body, Encoding string
}

type zc33FakeGCS struct {
	objs []zc33Obj
	bad  []string
	// tooLong counts uploads refused because the object name exceeds the store's limit
	// (nothing is written).
	tooLong int
}

// zc33MaxKey is the object-name limit the fake enforces, as GCS does (1024 bytes of UTF-8).
const zc33MaxKey = 1024

func (f *zc33FakeGCS) reset() { f.objs, f.bad, f.tooLong = nil, nil, 0 }

// RoundTrip implements http.RoundTripper entirely in memory.
func (f *zc33FakeGCS) RoundTrip(r *http.Request) (*http.Response, error) {
	rec := httptest.NewRecorder()
	f.serve(rec, r)
	return rec.Result(), nil
}

func (f *zc33FakeGCS) serve(w http.ResponseWriter, r *http.Request) {
	fail := func(why string) {
		f.bad = append(f.bad, why+": "+r.Method+" "+r.URL.String())
		w.Header().Set("Content-Type", "application/json")
		w.WriteHeader(http.StatusBadRequest)
		io.WriteString(w, `{"error":{"code":400,"message":"fake: `+why+`"}}`)
	}
	if strings.HasSuffix(r.URL.Path, "/token") { // OAuth token endpoint of the throw-away service account
		w.Header().Set("Content-Type", "application/json")
		io.WriteString(w, `{"access_token":"tok","token_type":"Bearer","expires_in":3600}`)
		return
	}
	const pfx = "/upload/storage/v1/b/"
	if r.Method != http.MethodPost || !strings.HasPrefix(r.URL.Path, pfx) || !strings.HasSuffix(r.URL.Path, "/o") {
		fail("unexpected request")
		return
	}
	bucket := strings.TrimSuffix(strings.TrimPrefix(r.URL.Path, pfx), "/o")
	if r.URL.Query().Get("uploadType") != "multipart" {
		fail("unexpected uploadType")
		return
	}
	_, params, err := mime.ParseMediaType(r.Header.Get("Content-Type"))
	if err != nil {
		fail("content type")
		return
	}
	mr := multipart.NewReader(r.Body, params["boundary"])
	p1, err := mr.NextPart()
	if err != nil {
		fail("metadata part")
		return
	}
	var meta struct {
		Name            string `json:"name"`
		Bucket          string `json:"bucket"`
		ContentEncoding string `json:"contentEncoding"`
	}
	if err := json.NewDecoder(p1).Decode(&meta); err != nil {
		fail("metadata json")
		return
	}
	p2, err := mr.NextPart()
	if err != nil {
		fail("media part")
		return
	}
	body, _ := io.ReadAll(p2)
	if q := r.URL.Query().Get("name"); q != "" && q != meta.Name {
		fail("name in query differs from name in metadata")
		return
	}
	if len(meta.Name) > zc33MaxKey {
		f.tooLong++
		w.Header().Set("Content-Type", "application/json")
		w.WriteHeader(http.StatusBadRequest)
		io.WriteString(w, `{"error":{"code":400,"message":"The specified object name is not valid.","errors":[{"reason":"invalid"}]}}`)
		return
	}
	f.objs = append(f.objs, zc33Obj{Bucket: bucket, Name: meta.Name, Body: string(body), Encoding: meta.ContentEncoding})
	w.Header().Set("Content-Type", "application/json")
	out, _ := json.Marshal(map[string]string{"bucket": bucket, "name": meta.Name, "size": fmt.Sprint(len(body)), "generation": "1"})
	w.Write(out)
}

// zc33Stream is an entropy source that hands out pairwise distinct 16-byte blocks: block k
// (k = 1, 2, …) carries the number k at byte Pos (all other bytes zero), or in every byte when
// Pos < 0.  Bits that a version-4 UUID overwrites (high nibble of byte 6, top two bits of
// byte 8) are never used to tell blocks apart, and a number too large for its byte carries
// into the following bytes, so any two blocks differ in bits that survive uuid.New().
type zc33Stream struct {
	Pos    int
	blocks int
	// reads counts the top-level Read calls; hook (if set) runs inside every top-level Read,
	// once before and once after the bytes are delivered. Reads made from inside the hook are
	// served without counting and without running the hook again.
	epoch  int
	reads  int
	hook   func(read int, after bool)
	inHook bool
}

func zc33Cap(i int) int {
	switch i {
	case 6:
		return 4
	case 8:
		return 6
	}
	return 8
}

// zc33Epochs numbers the streams of this process. Every block also carries its stream's
// epoch (in bytes away from the counter), so blocks handed out in DIFFERENT executions are
// distinct as well: a generator that keeps a process-wide batch of random bytes may still hold
// bytes from an earlier execution's stream, and those must not repeat the values of this one.
// Inside one execution the epoch is constant, so blocks still differ only at byte Pos.
var zc33Epochs int

func zc33NewStream(pos int) *zc33Stream {
	zc33Epochs++
	return &zc33Stream{Pos: pos, epoch: zc33Epochs}
}

// zc33PutBits writes v into b starting at byte i (little endian, skipping bits a v4 UUID overwrites).
func zc33PutBits(b []byte, i, v int, xor bool) {
	for ; v > 0; i = (i + 1) % 16 {
		c := zc33Cap(i)
		d := byte(v & (1<<c - 1))
		if xor {
			b[i] ^= d
		} else {
			b[i] |= d
		}
		v >>= c
	}
}

func (s *zc33Stream) block(k int) []byte {
	b := make([]byte, 16)
	if s.Pos < 0 {
		for i := range b {
			b[i] = byte(k)
		}
		b[1] ^= byte(k >> 8)
		zc33PutBits(b, 9, s.epoch, true) // bytes 9.. (b[0] gives k, so the XOR is invertible)
		return b
	}
	zc33PutBits(b, s.Pos, k, false)              // bytes Pos, Pos+1, ...
	zc33PutBits(b, (s.Pos+8)%16, s.epoch, false) // bytes Pos+8, ... (never reaches the counter's)
	return b
}

func (s *zc33Stream) Read(p []byte) (int, error) {
	idx := -1
	if !s.inHook && s.hook != nil {
		idx = s.reads
		s.reads++
		s.inHook = true
		s.hook(idx, false)
		s.inHook = false
	}
	// every Read starts at a fresh block, so a reader never sees part of an earlier block
	for off := 0; off < len(p); off += 16 {
		s.blocks++
		copy(p[off:], s.block(s.blocks))
	}
	if idx >= 0 {
		s.inHook = true
		s.hook(idx, true)
		s.inHook = false
	}
	return len(p), nil
}

func (s *zc33Stream) name() string {
	if s.Pos < 0 {
		return "entropy-differs-in-all-bytes"
	}
	return fmt.Sprintf("entropy-differs-in-byte-%d", s.Pos)
}

var zc33Steps = []time.Duration{0, 1 * time.Nanosecond, 999 * time.Nanosecond, time.Microsecond, time.Millisecond}
var zc33StepNames = []string{"+0", "+1ns", "+999ns", "+1us", "+1ms"}

type zc33Cfg struct {
	pos    int      // entropy stream
	enc    []string // content encoding of upload i is enc[i%len(enc)]
	prefix string
}

func zc33Configs() []zc33Cfg {
	alt, none, zst := []string{"", "zstd"}, []string{""}, []string{"zstd"}
	var out []zc33Cfg
	positions := venum.QT([]int{6, 15}, []int{0, 4, 6, 7, 8, 15, -1})
	for _, p := range positions {
		out = append(out, zc33Cfg{pos: p, enc: alt, prefix: ""})
	}
	for _, p := range []int{-1} {
		if venum.Thorough() {
			out = append(out, zc33Cfg{pos: p, enc: none, prefix: "p/"})
		}
		out = append(out, zc33Cfg{pos: p, enc: zst, prefix: "p/"})
	}
	return out
}

func TestVerif_C33_GCS(t *testing.T) {
	venum.Begin("C33")
	defer venum.Finish(t)

	// Every storage.Writer allocates a 16 MiB chunk buffer (gcs.go leaves ChunkSize at its
	// default). A never-touched ballast keeps the GC goal high enough that those buffers are
	// recycled instead of being returned to the OS and page-faulted in again on every upload.
	ballast := make([]byte, 512<<20)
	defer runtime.KeepAlive(ballast)

	fake := &zc33FakeGCS{}
	t.Setenv("STORAGE_EMULATOR_HOST", "gcs.invalid:9") // NewGCSStorage: no credential lookup, nothing is dialled
	t.Setenv("GCE_METADATA_HOST", "metadata.invalid:9")
	// TWO handles per prefix, each from its own constructor call, same bucket and prefix: uploads
	// of one execution go through either of them, keys must be distinct across both.
	tmpl := map[string][2]*GCSStorage{}
	for _, p := range []string{"", "p/"} {
		var pair [2]*GCSStorage
		for h := range pair {
			st, err := NewGCSStorage("bkt", GCSConfig{Prefix: p})
			if err != nil {
				t.Fatalf("NewGCSStorage: %v", err)
			}
			pair[h] = st
		}
		tmpl[p] = pair
	}
	t.Setenv("STORAGE_EMULATOR_HOST", "")
	key, err := rsa.GenerateKey(rand.Reader, 1024) // throw-away; only signs URLs nobody fetches
	if err != nil {
		t.Fatal(err)
	}
	der, _ := x509.MarshalPKCS8PrivateKey(key)
	sa, _ := json.Marshal(map[string]string{"type": "service_account", "project_id": "p", "private_key_id": "kid",
		"private_key":  string(pem.EncodeToMemory(&pem.Block{Type: "PRIVATE KEY", Bytes: der})),
		"client_email": "verif@p.iam.gserviceaccount.com", "client_id": "1", "token_uri": "http://gcs.invalid/token"})
	client, err := storage.NewClient(context.Background(), option.WithCredentialsJSON(sa),
		option.WithEndpoint("http://gcs.invalid/storage/v1/"), option.WithHTTPClient(&http.Client{Transport: fake}))
	if err != nil {
		t.Fatalf("storage.NewClient: %v", err)
	}
	defer client.Close()

	cfgs := zc33Configs()
	base := time.Unix(1_700_000_000, 0).UTC()

	body := func(x *venum.X, twoHandles bool, maxN int) {
		cfg := cfgs[x.Choose(len(cfgs), "config(entropy-stream x encodings x prefix)")]
		n := 1 + x.Choose(maxN, "uploads")

		fake.reset()
		vsched.FreezeClock(base)
		defer vsched.UnfreezeClock()
		stream := zc33NewStream(cfg.pos)
		uuid.SetRand(stream)
		defer uuid.SetRand(nil)
		// fresh values per execution (copies of the constructor results, so per-handle state such
		// as a sequence counter starts from its initial value in every execution)
		handles := [2]*GCSStorage{}
		for h := range handles {
			cp := *tmpl[cfg.prefix][h]
			handles[h] = &cp
			handles[h].client = client
		}
		wantPrefix := cfg.prefix
		if wantPrefix == "" {
			wantPrefix = "vgi-rpc/"
		}

		type up struct {
			at     time.Time
			key    string
			blocks int // entropy blocks read while this upload ran
			handle int
		}
		var ups []up
		var exts []string
		for i := 0; i < n; i++ {
			// which handle performs upload i; the first upload is always handle 0 (the two handles
			// are interchangeable, so this loses nothing)
			h := 0
			if twoHandles && i > 0 {
				h = x.Choose(2, fmt.Sprintf("handle-of-upload-%d", i))
			}
			st := handles[h]
			d := x.Deviate(len(zc33Steps), fmt.Sprintf("clock-before-upload-%d", i))
			vsched.Advance(zc33Steps[d])
			payload := "same-payload" // identical data is the worst case for a key derived from the data
			enc := cfg.enc[i%len(cfg.enc)]
			before, b0 := len(fake.objs), stream.blocks
			u, err := st.Upload([]byte(payload), nil, enc)
			if err != nil {
				venum.EngineError("Upload %d failed against the fake endpoint: %v (bad=%v)", i, err, fake.bad)
				return
			}
			if len(fake.objs) != before+1 {
				venum.EngineError("Upload %d: %d objects written (bad=%v)", i, len(fake.objs)-before, fake.bad)
				return
			}
			o := fake.objs[before]
			if o.Bucket != "bkt" || o.Body != payload || o.Encoding != enc {
				venum.EngineError("Upload %d: fake endpoint saw bucket=%q body=%q enc=%q", i, o.Bucket, o.Body, o.Encoding)
				return
			}
			if pu, perr := url.Parse(u); perr != nil || strings.TrimPrefix(pu.Path, "/bkt/") != o.Name {
				x.Note("upload %d: signed URL %q does not name object %q", i, u, o.Name)
			}
			ups = append(ups, up{at: vsched.Now(), key: o.Name, blocks: stream.blocks - b0, handle: h})
			ext := "other"
			for _, e := range []string{".arrow.zst", ".arrow"} {
				if strings.HasSuffix(o.Name, e) {
					ext = e
					break
				}
			}
			exts = append(exts, ext)
		}

		classes := map[string][]int{}
		for i, u := range ups {
			classes[u.key] = append(classes[u.key], i)
		}
		var part []string
		for _, idx := range classes {
			part = append(part, fmt.Sprint(idx))
		}
		sort.Strings(part)
		for i := 0; i < len(ups); i++ {
			for j := i + 1; j < len(ups); j++ {
				if ups[i].key != ups[j].key {
					continue
				}
				// The class is a function of the choice list only (clock distance; the entropy
				// stream when the clock cannot explain the collision). It must not depend on
				// whether THIS execution saw an entropy read: a generator with process-wide
				// state (a batch of random bytes, say) reads entropy in some executions only.
				gap := ups[j].at.Sub(ups[i].at)
				class := "clock-apart>=1us:" + stream.name()
				if gap == 0 {
					class = "same-instant"
				} else if ups[i].at.Truncate(time.Microsecond).Equal(ups[j].at.Truncate(time.Microsecond)) {
					class = "same-microsecond"
				}
				if ups[i].handle != ups[j].handle {
					class = "two-handles:" + class
				}
				x.Failf("C33:gcs:key-reused:"+class,
					"uploads #%d (handle %d) and #%d (handle %d) (clock readings %d ns apart, entropy blocks read %d and %d, stream %s) both wrote object %q: upload #%d overwrote the object written by upload #%d",
					i, ups[i].handle, j, ups[j].handle, ups[j].at.Sub(ups[i].at).Nanoseconds(), ups[i].blocks, ups[j].blocks, stream.name(), ups[i].key, j, i)
			}
		}
		shape := fmt.Sprintf("prefix-ok=%v len=%d", strings.HasPrefix(ups[0].key, wantPrefix), len(ups[0].key)-len(wantPrefix))
		x.Outcome("n=%d prefix=%q partition=%v ext=%v %s", n, cfg.prefix, part, exts, shape)
	}
	// Overlap on the entropy seam (see the S3 harness): a long sequence of uploads through
	// handle 0 during which ONE read of the uuid entropy source — the k-th top-level Read seen in
	// this execution, k enumerated; the storage client's own uuid.New() calls for invocation ids
	// count as reads too — runs a second upload through handle 1 re-entrantly, before or after
	// the bytes are delivered.
	longN := venum.QT(70, 130) // at least 66 uploads in every tier
	overlapBody := func(x *venum.X, nOverlap int, cfgs []zc33Cfg) {
		ov := x.Choose(nOverlap+1, "overlapped-entropy-read-index (last = no overlap)")
		after := false
		if ov < nOverlap {
			after = x.Bool("second upload runs after (not before) the bytes are delivered")
		} else {
			ov = -1 // no read is overlapped
		}
		cfg := cfgs[x.Choose(len(cfgs), "config(entropy-stream x encodings x prefix)")]
		fake.reset()
		vsched.FreezeClock(base)
		defer vsched.UnfreezeClock()
		stream := zc33NewStream(cfg.pos)
		handles := [2]*GCSStorage{}
		for h := range handles {
			cp := *tmpl[cfg.prefix][h]
			handles[h] = &cp
			handles[h].client = client
		}
		type up struct {
			key    string
			nested bool
			seq    int
		}
		var ups []up
		broken := false
		upload := func(h int) (string, bool) {
			_, err := handles[h].Upload([]byte("same-payload"), nil, cfg.enc[0])
			if err != nil || len(fake.objs) == 0 {
				venum.EngineError("overlap space: Upload failed against the fake endpoint: %v (bad=%v)", err, fake.bad)
				broken = true
				return "", false
			}
			return fake.objs[len(fake.objs)-1].Name, true
		}
		cur, happened := 0, false
		stream.hook = func(read int, aft bool) {
			if read != ov || aft != after || happened || broken {
				return
			}
			happened = true
			if k, ok := upload(1); ok {
				ups = append(ups, up{key: k, nested: true, seq: cur})
			}
		}
		uuid.SetRand(stream)
		defer uuid.SetRand(nil)
		for cur = 0; cur < longN && !broken; cur++ {
			if k, ok := upload(0); ok {
				ups = append(ups, up{key: k, seq: cur})
			}
		}
		uuid.SetRand(nil)
		if broken {
			return
		}
		if want := longN + map[bool]int{true: 1}[happened]; len(fake.objs) != want || len(ups) != want {
			venum.EngineError("overlap space: %d objects written, %d recorded, want %d (bad=%v)", len(fake.objs), len(ups), want, fake.bad)
			return
		}
		x.Note("top-level entropy reads in this execution: %d", stream.reads)
		first := map[string]int{}
		collisions := 0
		for j, u := range ups {
			i, seen := first[u.key]
			if !seen {
				first[u.key] = j
				continue
			}
			collisions++
			a, b := ups[i], u
			rel := "between-sequential-uploads"
			if a.nested || b.nested {
				n, o := a, b
				if b.nested {
					n, o = b, a
				}
				switch {
				case o.seq < n.seq:
					rel = "overlapping-upload-vs-earlier-upload"
				case o.seq == n.seq:
					rel = "overlapping-upload-vs-overlapped-upload"
				default:
					rel = "overlapping-upload-vs-later-upload"
				}
			}
			x.Failf("C33:gcs:key-reused:overlapped-entropy-read:"+rel,
				"%d uploads through handle 0; entropy read #%d of this execution was overlapped (%s the bytes were delivered) by an upload through handle 1; uploads [seq %d nested=%v] and [seq %d nested=%v] both wrote object %q",
				longN, ov, map[bool]string{false: "before", true: "after"}[after], a.seq, a.nested, b.seq, b.nested, u.key)
		}
		wantPrefix := cfg.prefix
		if wantPrefix == "" {
			wantPrefix = "vgi-rpc/"
		}
		x.Outcome("long uploads=%d overlap-happened=%v collisions=%d prefix-ok=%v len=%d", len(ups), happened, collisions,
			strings.HasPrefix(ups[0].key, wantPrefix), len(ups[0].key)-len(wantPrefix))
	}
	// quick: the first 3 entropy reads of the execution; thorough: the first 70 (one read per
	// upload on the unchanged tree, so that is an overlap at each of the first 70 uploads)
	venum.Explore(t, venum.Cfg{Name: "gcs-overlapped-entropy-read", Shardable: true, CheckDeterminism: true},
		func(x *venum.X) {
			overlapBody(x, venum.QT(3, 70), cfgs[1:2])
		})

	// Boundary-length prefixes: the configured Prefix is as long as the store's object-name limit
	// allows, or longer. The fake refuses names over the limit like GCS (nothing is written,
	// Upload reports an error — allowed: the statement is about keys that ARE written). Whatever
	// the backend does with such a prefix, the names it does write must be pairwise distinct.
	const keyTail = 36 + 6 // the unique suffix the unchanged tree appends: a UUID and ".arrow"
	longLens := venum.QT(
		[]int{zc33MaxKey - keyTail - 1, zc33MaxKey - keyTail, zc33MaxKey - keyTail + 1, zc33MaxKey - 24, zc33MaxKey - 3, zc33MaxKey - 1, zc33MaxKey, zc33MaxKey + 1, zc33MaxKey + 76},
		func() []int {
			var l []int
			for n := zc33MaxKey - keyTail - 12; n <= zc33MaxKey+2; n++ { // every length across the boundary
				l = append(l, n)
			}
			return append(l, zc33MaxKey+76, 2*zc33MaxKey)
		}())
	longTmpl := map[int][2]*GCSStorage{}
	longBody := func(x *venum.X, maxN int, positions []int) {
		plen := longLens[x.Choose(len(longLens), "prefix-length")]
		stream := zc33NewStream(positions[x.Choose(len(positions), "entropy-stream")])
		enc := x.Pick("content-encoding", "", "zstd")
		n := 1 + x.Choose(maxN, "uploads")
		pair, ok := longTmpl[plen]
		if !ok {
			os.Setenv("STORAGE_EMULATOR_HOST", "gcs.invalid:9")
			for h := range pair {
				st, err := NewGCSStorage("bkt", GCSConfig{Prefix: strings.Repeat("a", plen-1) + "/"})
				if err != nil {
					venum.EngineError("NewGCSStorage(prefix of %d bytes): %v", plen, err)
					return
				}
				pair[h] = st
			}
			os.Setenv("STORAGE_EMULATOR_HOST", "")
			longTmpl[plen] = pair
		}
		fake.reset()
		vsched.FreezeClock(base)
		defer vsched.UnfreezeClock()
		handles := [2]*GCSStorage{}
		for h := range handles {
			cp := *pair[h]
			handles[h] = &cp
			handles[h].client = client
		}
		type up struct {
			key    string
			handle int
		}
		var ups []up
		var pattern []string
		uuid.SetRand(stream)
		defer uuid.SetRand(nil)
		for i := 0; i < n; i++ {
			h := 0
			if i > 0 {
				h = x.Choose(2, fmt.Sprintf("handle-of-upload-%d", i))
			}
			before, rej := len(fake.objs), fake.tooLong
			_, err := handles[h].Upload([]byte("same-payload"), nil, enc)
			wrote := len(fake.objs) - before
			switch {
			case err == nil && wrote == 1:
				ups = append(ups, up{key: fake.objs[before].Name, handle: h})
				pattern = append(pattern, "written")
			case err != nil && wrote == 0 && fake.tooLong > rej:
				pattern = append(pattern, "refused-name-too-long") // nothing written: nothing to compare
			default:
				venum.EngineError("long-prefix space: Upload %d: err=%v, %d objects written, refused=%d (bad=%v)", i, err, wrote, fake.tooLong-rej, fake.bad)
				return
			}
		}
		class := "prefix-leaves-room-for-the-whole-key"
		switch {
		case plen >= zc33MaxKey:
			class = "prefix-fills-the-key-limit"
		case plen+keyTail+len(".zst")*map[bool]int{true: 1}[enc == "zstd"] > zc33MaxKey:
			class = "prefix-leaves-room-for-part-of-the-key"
		}
		first := map[string]int{}
		collisions := 0
		for j, u := range ups {
			i, seen := first[u.key]
			if !seen {
				first[u.key] = j
				continue
			}
			collisions++
			two := ""
			if ups[i].handle != u.handle {
				two = "two-handles:"
			}
			x.Failf("C33:gcs:key-reused:long-prefix:"+two+class,
				"Prefix of %d bytes (name limit %d, stream %s, encoding %q): written uploads #%d (handle %d) and #%d (handle %d) both wrote a %d-byte object name ending in %q: the later upload overwrote the earlier one",
				plen, zc33MaxKey, stream.name(), enc, i, ups[i].handle, j, u.handle, len(u.key), u.key[len(u.key)-min(len(u.key), 50):])
		}
		x.Outcome("long-prefix %s uploads=%v collisions=%d", class, pattern, collisions)
	}
	venum.Explore(t, venum.Cfg{Name: "gcs-boundary-length-prefix", Shardable: true, CheckDeterminism: true},
		func(x *venum.X) { longBody(x, venum.QT(2, 3), venum.QT([]int{15, 0}, []int{15, 0, -1})) })

	// every interleaving of the two handles, sequences <=3 (quick) / <=4 (thorough)
	venum.Explore(t, venum.Cfg{Name: "gcs-two-handle-sequences", Shardable: true, DevBound: -1, CheckDeterminism: true},
		func(x *venum.X) { body(x, true, venum.QT(3, 4)) })
	// thorough: one handle, sequences <=5 (the quick tier's single-handle sequences are the
	// all-handle-0 assignments of the space above)
	if venum.Thorough() {
		venum.Explore(t, venum.Cfg{Name: "gcs-upload-sequences", Shardable: true, DevBound: -1, CheckDeterminism: true},
			func(x *venum.X) { body(x, false, 5) })
	}
}
