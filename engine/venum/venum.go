// Package venum is the stateless bounded-exhaustive explorer (engine E1) and the
// explicit-state breadth-first explorer (engine E2) used by the /verif harnesses.
//
// It is injected into the package under test as a virtual package through
// `go test -overlay`; nothing here is committed to the repository under test.
//
// E1: a body is a deterministic function of the answers it gets from
// X.Choose / X.Deviate.  Explore runs the body with every answer sequence:
// replay a prefix, answer 0 from there on, record the arities met, then recurse
// on every alternative whose deviation cost stays inside the bound.
package venum

import (
	"crypto/sha256"
	"encoding/hex"
	"encoding/json"
	"fmt"
	"os"
	"path/filepath"
	"runtime"
	"sort"
	"strconv"
	"strings"
	"sync"
	"testing"
	"time"
)

// Failure is one oracle violation inside one execution.
type Failure struct {
	Sig    string `json:"sig"`
	Detail string `json:"detail"`
}

// X is one execution.
type X struct {
	prefix   []int
	choices  []int
	arities  []int
	labels   []string
	isDev    []bool
	isPre    []bool
	fails    []Failure
	outcome  []string
	notes    []string
	preBound int
	replay   bool // strict replay: prefix must cover every point
	diverge  string
	Verbose  bool
	// Sched is an opaque slot for the scheduler engine (E3) to hang its
	// per-execution state on.
	Sched any
}

func (x *X) point(n int, label string, dev bool) int { return x.pointK(n, label, dev, false) }

func (x *X) pointK(n int, label string, dev, pre bool) int {
	if n <= 0 {
		panic(fmt.Sprintf("venum: choice point %q with arity %d", label, n))
	}
	i := len(x.choices)
	c := 0
	if i < len(x.prefix) {
		c = x.prefix[i]
		if c >= n || c < 0 {
			x.diverge = fmt.Sprintf("replay divergence at point %d (%s): choice %d out of range %d", i, label, c, n)
			panic(divergence{x.diverge})
		}
	}
	x.choices = append(x.choices, c)
	x.arities = append(x.arities, n)
	x.labels = append(x.labels, label)
	x.isDev = append(x.isDev, dev)
	x.isPre = append(x.isPre, pre)
	return c
}

// Preempt returns a value in [0,n): a scheduling decision where 0 means "keep
// running the current thread" and any other value switches away from a thread
// that could have continued; it costs one preemption against Cfg.PreemptBound.
func (x *X) Preempt(n int, label string) int { return x.pointK(n, label, false, true) }

// PreemptBudgetLeft reports how many more preemptions this execution may take
// (a large number when unbounded). Set by Explore before the body runs.
func (x *X) PreemptBudgetLeft() int {
	if x.preBound < 0 {
		return 1 << 30
	}
	used := 0
	for i, p := range x.isPre {
		if p && x.choices[i] != 0 {
			used++
		}
	}
	return x.preBound - used
}

type divergence struct{ msg string }

// Choose returns a value in [0,n): an input, configuration or operation choice.
// Every alternative is explored.
func (x *X) Choose(n int, label string) int { return x.point(n, label, false) }

// Deviate returns a value in [0,n): an environment answer. 0 is the default
// answer; any other value costs one deviation against Cfg.DevBound.
func (x *X) Deviate(n int, label string) int { return x.point(n, label, true) }

// Bool is Choose(2) as a bool (false first).
func (x *X) Bool(label string) bool { return x.Choose(2, label) == 1 }

// Pick chooses one of the given strings.
func (x *X) Pick(label string, opts ...string) string { return opts[x.Choose(len(opts), label)] }

// Failf records an oracle violation. sig names the *class* of the failing case
// (input / call site / history); it is what known_findings.json matches on.
func (x *X) Failf(sig, format string, args ...any) {
	x.fails = append(x.fails, Failure{Sig: sig, Detail: fmt.Sprintf(format, args...)})
}

// Failed reports whether this execution has recorded a violation.
func (x *X) Failed() bool { return len(x.fails) > 0 }

// Outcome appends to this execution's outcome fingerprint (used to count
// distinct observed behaviours; never compared against an expectation).
func (x *X) Outcome(format string, args ...any) {
	x.outcome = append(x.outcome, fmt.Sprintf(format, args...))
}

// Note records a human-readable line for replay output / samples.
func (x *X) Note(format string, args ...any) {
	if len(x.notes) < 64 {
		x.notes = append(x.notes, fmt.Sprintf(format, args...))
	}
}

// Depth returns the number of choice points taken so far.
func (x *X) Depth() int { return len(x.choices) }

// Cfg configures one exploration (one "space").
type Cfg struct {
	Name     string // space name, unique inside a property
	DevBound int    // max number of non-default Deviate answers per execution (-1: unbounded)
	// PreemptBound is the max number of non-zero Preempt answers per execution
	// (-1: unbounded). Only scheduler-driven harnesses use it.
	PreemptBound int
	MaxExec      int64 // cap on executions (0: none). Hitting it sets exhaustive=false.
	// Shardable says the first choice point may be split across worker
	// processes (VERIF_SHARD=i/n): its arity must not depend on anything.
	Shardable bool
	// CheckDeterminism re-runs the first execution and requires an identical
	// choice/label trace and outcome (engine error otherwise).
	CheckDeterminism bool
	// MinOutcomes is the vacuity guard: fewer distinct outcomes than this marks
	// the space vacuous (default 2).
	MinOutcomes int
}

// Space is the report of one exploration.
type Space struct {
	Name         string           `json:"name"`
	Executions   int64            `json:"executions"`
	Transitions  int64            `json:"transitions"`
	States       int64            `json:"states"` // distinct outcome fingerprints (E1) or canonical states (E2)
	MaxDepth     int              `json:"max_depth"`
	DevBound     int              `json:"dev_bound"`
	PreemptBound int              `json:"preempt_bound"`
	Exhaustive   bool             `json:"exhaustive"`
	CapHit       string           `json:"cap_hit,omitempty"`
	Vacuous      bool             `json:"vacuous,omitempty"`
	Samples      []string         `json:"samples,omitempty"`
	Shard        string           `json:"shard,omitempty"`
	WallS        float64          `json:"wall_s"`
	Extra        map[string]int64 `json:"extra,omitempty"`
	// Hashes carries the outcome fingerprints when the run is sharded, so the
	// runner can count distinct outcomes across shards.
	Hashes        []string `json:"hashes,omitempty"`
	outcomeHashes map[[12]byte]struct{}
}

// Violation is a confirmed failing execution with its replay file.
type Violation struct {
	Space     string   `json:"space"`
	Sig       string   `json:"sig"`
	Detail    string   `json:"detail"`
	Choices   []int    `json:"choices"`
	Labels    []string `json:"labels"`
	Notes     []string `json:"notes,omitempty"`
	Count     int64    `json:"count"`
	Replay    string   `json:"replay,omitempty"`
	Confirmed bool     `json:"confirmed"`
}

// Report is what a harness process writes for the runner.
type Report struct {
	Property   string            `json:"property"`
	Tier       string            `json:"tier"`
	Shard      string            `json:"shard,omitempty"`
	Spaces     []*Space          `json:"spaces"`
	Violations []*Violation      `json:"violations"`
	EngineErr  []string          `json:"engine_errors,omitempty"`
	Info       map[string]string `json:"info,omitempty"`
}

var (
	mu       sync.Mutex
	report   = &Report{Info: map[string]string{}}
	violBy   = map[string]*Violation{}
	deadline time.Time
	started  = time.Now()
)

// Tier returns "quick" or "thorough".
func Tier() string {
	if os.Getenv("VERIF_TIER") == "thorough" {
		return "thorough"
	}
	return "quick"
}

// Thorough reports whether the thorough tier is selected.
func Thorough() bool { return Tier() == "thorough" }

// QT returns q on the quick tier and t on the thorough tier.
func QT[T any](q, t T) T {
	if Thorough() {
		return t
	}
	return q
}

// Seed returns VERIF_SEED (used only to derive key material / ids).
func Seed() int64 {
	v, _ := strconv.ParseInt(os.Getenv("VERIF_SEED"), 10, 64)
	return v
}

func shard() (i, n int) {
	s := os.Getenv("VERIF_SHARD")
	if s == "" {
		return 0, 1
	}
	parts := strings.SplitN(s, "/", 2)
	if len(parts) != 2 {
		return 0, 1
	}
	i, _ = strconv.Atoi(parts[0])
	n, _ = strconv.Atoi(parts[1])
	if n <= 0 {
		return 0, 1
	}
	return i, n
}

func outDir() string {
	d := os.Getenv("VERIF_OUT")
	if d == "" {
		d = os.TempDir()
	}
	return d
}

func initDeadline() {
	if !deadline.IsZero() {
		return
	}
	s, _ := strconv.ParseFloat(os.Getenv("VERIF_DEADLINE_S"), 64)
	if s <= 0 {
		s = 3600
	}
	deadline = started.Add(time.Duration(s * float64(time.Second)))
}

// DeadlinePassed reports whether the internal deadline for this process passed.
func DeadlinePassed() bool {
	initDeadline()
	return time.Now().After(deadline)
}

// SetInfo records a free-form key/value in the report.
func SetInfo(k, v string) {
	mu.Lock()
	report.Info[k] = v
	mu.Unlock()
}

// EngineError records a failure of the machinery itself (never an alarm).
func EngineError(format string, args ...any) {
	mu.Lock()
	if len(report.EngineErr) < 50 {
		report.EngineErr = append(report.EngineErr, fmt.Sprintf(format, args...))
	}
	mu.Unlock()
}

type replayFile struct {
	Property string   `json:"property"`
	Space    string   `json:"space"`
	Sig      string   `json:"sig"`
	Detail   string   `json:"detail"`
	Choices  []int    `json:"choices"`
	Labels   []string `json:"labels"`
	Notes    []string `json:"notes,omitempty"`
}

func loadReplay() *replayFile {
	p := os.Getenv("VERIF_REPLAY")
	if p == "" {
		return nil
	}
	b, err := os.ReadFile(p)
	if err != nil {
		panic("venum: cannot read VERIF_REPLAY: " + err.Error())
	}
	var rf replayFile
	if err := json.Unmarshal(b, &rf); err != nil {
		panic("venum: bad VERIF_REPLAY: " + err.Error())
	}
	return &rf
}

// runOne executes body once under the given prefix.
var curPreBound = -1

func runOne(prefix []int, body func(*X), verbose bool) (x *X) {
	x = &X{prefix: prefix, Verbose: verbose, preBound: curPreBound}
	defer func() {
		if r := recover(); r != nil {
			if _, ok := r.(divergence); ok {
				return
			}
			if u, ok := r.(interface{ VerifUnsupported() string }); ok {
				x.diverge = "unsupported construct: " + u.VerifUnsupported()
				return
			}
			x.fails = append(x.fails, Failure{
				Sig:    "escaped-panic:" + panicSite(),
				Detail: fmt.Sprintf("panic escaped the harness body: %v\n%s", r, trimStack()),
			})
		}
	}()
	body(x)
	return x
}

func panicSite() string {
	pcs := make([]uintptr, 64)
	n := runtime.Callers(3, pcs)
	frames := runtime.CallersFrames(pcs[:n])
	for {
		f, more := frames.Next()
		fn := f.Function
		if fn != "" && !strings.HasPrefix(fn, "runtime.") && !strings.Contains(fn, "/venum.") {
			if i := strings.LastIndex(fn, "/"); i >= 0 {
				fn = fn[i+1:]
			}
			return fn
		}
		if !more {
			break
		}
	}
	return "unknown"
}

func trimStack() string {
	buf := make([]byte, 16<<10)
	n := runtime.Stack(buf, false)
	s := string(buf[:n])
	lines := strings.Split(s, "\n")
	if len(lines) > 40 {
		lines = lines[:40]
	}
	return strings.Join(lines, "\n")
}

func fingerprint(parts []string) [12]byte {
	h := sha256.New()
	for _, p := range parts {
		h.Write([]byte(p))
		h.Write([]byte{0})
	}
	var out [12]byte
	copy(out[:], h.Sum(nil))
	return out
}

func (sp *Space) observe(x *X) {
	sp.Executions++
	sp.Transitions += int64(len(x.choices))
	if len(x.choices) > sp.MaxDepth {
		sp.MaxDepth = len(x.choices)
	}
	fp := fingerprint(x.outcome)
	if _, ok := sp.outcomeHashes[fp]; !ok {
		sp.outcomeHashes[fp] = struct{}{}
		if len(sp.Samples) < 6 {
			sp.Samples = append(sp.Samples, describe(x))
		}
	}
}

func describe(x *X) string {
	var b strings.Builder
	for i, c := range x.choices {
		if i > 0 {
			b.WriteString(" ")
		}
		if i >= 24 {
			fmt.Fprintf(&b, "…(+%d)", len(x.choices)-i)
			break
		}
		fmt.Fprintf(&b, "%s=%d", x.labels[i], c)
	}
	o := strings.Join(x.outcome, ";")
	if len(o) > 300 {
		o = o[:300] + "…"
	}
	return "[" + b.String() + "] -> " + o
}

func recordViolation(space string, x *X, body func(*X)) {
	for _, f := range x.fails {
		key := space + "\x00" + f.Sig
		mu.Lock()
		v, ok := violBy[key]
		if ok {
			v.Count++
			mu.Unlock()
			continue
		}
		if len(violBy) >= 200 {
			mu.Unlock()
			continue
		}
		v = &Violation{Space: space, Sig: f.Sig, Detail: f.Detail, Count: 1,
			Choices: append([]int{}, x.choices...), Labels: append([]string{}, x.labels...),
			Notes: append([]string{}, x.notes...)}
		violBy[key] = v
		report.Violations = append(report.Violations, v)
		mu.Unlock()
		// Confirm: the same choice list must reproduce the same signature twice.
		confirmed := true
		if body != nil {
			for k := 0; k < 2; k++ {
				y := runOne(x.choices, body, false)
				found := false
				for _, g := range y.fails {
					if g.Sig == f.Sig {
						found = true
					}
				}
				if !found || y.diverge != "" {
					confirmed = false
				}
			}
		}
		v.Confirmed = confirmed
		rf := replayFile{Property: report.Property, Space: space, Sig: f.Sig, Detail: f.Detail,
			Choices: v.Choices, Labels: v.Labels, Notes: v.Notes}
		b, _ := json.MarshalIndent(rf, "", " ")
		h := sha256.Sum256([]byte(key))
		name := fmt.Sprintf("replay_%s_%s.json", report.Property, hex.EncodeToString(h[:6]))
		p := filepath.Join(outDir(), name)
		if err := os.WriteFile(p, b, 0o644); err == nil {
			v.Replay = p
		}
	}
}

// Explore runs body over the complete choice tree within cfg's bounds.
func Explore(t testing.TB, cfg Cfg, body func(*X)) *Space {
	initDeadline()
	start := time.Now()
	si, sn := shard()
	sp := &Space{Name: cfg.Name, DevBound: cfg.DevBound, PreemptBound: cfg.PreemptBound, Exhaustive: true, outcomeHashes: map[[12]byte]struct{}{}}
	curPreBound = cfg.PreemptBound
	defer func() { curPreBound = -1 }()
	if sn > 1 {
		sp.Shard = fmt.Sprintf("%d/%d", si, sn)
	}
	mu.Lock()
	report.Spaces = append(report.Spaces, sp)
	mu.Unlock()

	if rf := loadReplay(); rf != nil {
		if rf.Space != cfg.Name {
			sp.Exhaustive = false
			sp.CapHit = "replay-of-other-space"
			return sp
		}
		x := runOne(rf.Choices, body, true)
		if x.diverge != "" {
			EngineError("replay diverged: %s", x.diverge)
		}
		sp.observe(x)
		sp.Exhaustive = false
		sp.CapHit = "replay"
		fmt.Printf("REPLAY space=%s choices=%v\n", cfg.Name, x.choices)
		for i, c := range x.choices {
			fmt.Printf("  point %d %s = %d (of %d)\n", i, x.labels[i], c, x.arities[i])
		}
		for _, n := range x.notes {
			fmt.Printf("  note: %s\n", n)
		}
		fmt.Printf("  outcome: %s\n", strings.Join(x.outcome, ";"))
		for _, f := range x.fails {
			fmt.Printf("  FAIL %s: %s\n", f.Sig, f.Detail)
		}
		if len(x.fails) > 0 {
			recordViolation(cfg.Name, x, nil)
		}
		sp.finish(cfg, start)
		return sp
	}

	stop := false
	var explore func(prefix []int, fixed int)
	explore = func(prefix []int, fixed int) {
		if stop {
			return
		}
		if cfg.MaxExec > 0 && sp.Executions >= cfg.MaxExec {
			stop, sp.Exhaustive, sp.CapHit = true, false, "max_exec"
			return
		}
		if sp.Executions&0x3f == 0 && time.Now().After(deadline) {
			stop, sp.Exhaustive, sp.CapHit = true, false, "deadline"
			return
		}
		x := runOne(prefix, body, false)
		if x.diverge != "" {
			EngineError("space %s: %s", cfg.Name, x.diverge)
			stop, sp.Exhaustive, sp.CapHit = true, false, "divergence"
			return
		}
		if cfg.CheckDeterminism && sp.Executions == 0 {
			y := runOne(prefix, body, false)
			if strings.Join(x.labels, "\x00") != strings.Join(y.labels, "\x00") || fmt.Sprint(x.arities) != fmt.Sprint(y.arities) ||
				strings.Join(x.outcome, "\x00") != strings.Join(y.outcome, "\x00") {
				EngineError("space %s: nondeterministic replay of the first execution:\n  run1 labels=%v outcome=%v\n  run2 labels=%v outcome=%v",
					cfg.Name, x.labels, x.outcome, y.labels, y.outcome)
				stop, sp.Exhaustive, sp.CapHit = true, false, "nondeterminism"
				return
			}
		}
		sp.observe(x)
		if len(x.fails) > 0 {
			recordViolation(cfg.Name, x, body)
		}
		// deviation cost of the prefix part
		cost, pcost := 0, 0
		for i := 0; i < len(prefix) && i < len(x.choices); i++ {
			if x.isDev[i] && x.choices[i] != 0 {
				cost++
			}
			if x.isPre[i] && x.choices[i] != 0 {
				pcost++
			}
		}
		from := len(prefix)
		if from < fixed {
			from = fixed
		}
		for i := from; i < len(x.choices); i++ {
			if x.isDev[i] && cfg.DevBound >= 0 && cost+1 > cfg.DevBound {
				continue
			}
			if x.isPre[i] && cfg.PreemptBound >= 0 && pcost+1 > cfg.PreemptBound {
				continue
			}
			for alt := 1; alt < x.arities[i]; alt++ {
				np := make([]int, i+1)
				copy(np, x.choices[:i])
				np[i] = alt
				explore(np, 0)
				if stop {
					return
				}
			}
		}
	}

	if sn > 1 && cfg.Shardable {
		// Discover the first point's arity with one probe run (not counted).
		probe := runOne(nil, body, false)
		if len(probe.arities) == 0 {
			if si == 0 {
				explore(nil, 0)
			}
		} else {
			for a := 0; a < probe.arities[0]; a++ {
				if a%sn != si {
					continue
				}
				explore([]int{a}, 1)
			}
		}
	} else if sn > 1 && si != 0 {
		// Non-shardable spaces are explored by shard 0 only.
		sp.Exhaustive = true
		sp.CapHit = "other-shard"
	} else {
		explore(nil, 0)
	}
	sp.finish(cfg, start)
	return sp
}

func (sp *Space) finish(cfg Cfg, start time.Time) {
	sp.States = int64(len(sp.outcomeHashes))
	sp.WallS = time.Since(start).Seconds()
	if sp.Shard != "" && len(sp.outcomeHashes) <= 500000 {
		for h := range sp.outcomeHashes {
			sp.Hashes = append(sp.Hashes, hex.EncodeToString(h[:]))
		}
	}
	min := cfg.MinOutcomes
	if min == 0 {
		min = 2
	}
	if sp.CapHit == "" && sp.Shard == "" && sp.States < int64(min) {
		sp.Vacuous = true
	}
}

// AddExtra adds a named counter to a space (e.g. contention counts).
func (sp *Space) AddExtra(k string, v int64) {
	if sp.Extra == nil {
		sp.Extra = map[string]int64{}
	}
	sp.Extra[k] += v
}

// ---------------------------------------------------------------------------
// E2: explicit-state breadth-first search by replay.

// BFSCfg configures an explicit-state search. A state is identified by the
// event history that reaches it; Step must build a fresh real object, replay
// hist on it, and return the canonical key of the state reached plus the number
// of events enabled there. Step reports oracle failures through x.Failf.
type BFSCfg struct {
	Name     string
	MaxDepth int
	MaxState int64
	// NEvents returns the size of the event alphabet (constant).
	NEvents int
	// Step replays hist (event indices) on a fresh instance and returns the
	// canonical key of the reached state. ok=false means the last event was
	// not enabled in the predecessor state (the successor is discarded).
	Step func(x *X, hist []int) (key string, ok bool)
	// EventName renders an event for samples/replays.
	EventName func(ev int) string
}

// BFS runs the search and reports states / transitions.
func BFS(t testing.TB, cfg BFSCfg) *Space {
	initDeadline()
	start := time.Now()
	sp := &Space{Name: cfg.Name, Exhaustive: true, outcomeHashes: map[[12]byte]struct{}{}}
	mu.Lock()
	report.Spaces = append(report.Spaces, sp)
	mu.Unlock()
	si, sn := shard()
	if sn > 1 && si != 0 {
		sp.CapHit = "other-shard"
		return sp
	}
	body := func(x *X) {
		// a replayable body: the history is encoded as Choose(NEvents+1) points, value NEvents = stop
		var hist []int
		for {
			c := x.Choose(cfg.NEvents+1, "ev")
			if c == 0 {
				break
			}
			hist = append(hist, c-1)
			if len(hist) > cfg.MaxDepth+1 {
				break
			}
		}
		key, ok := cfg.Step(x, hist)
		x.Outcome("%v %s", ok, key)
	}
	if rf := loadReplay(); rf != nil {
		if rf.Space != cfg.Name {
			sp.Exhaustive, sp.CapHit = false, "replay-of-other-space"
			return sp
		}
		x := runOne(rf.Choices, body, true)
		sp.observe(x)
		sp.Exhaustive, sp.CapHit = false, "replay"
		fmt.Printf("REPLAY(bfs) space=%s\n", cfg.Name)
		for i, c := range x.choices {
			if c > 0 && cfg.EventName != nil {
				fmt.Printf("  event %d: %s\n", i, cfg.EventName(c-1))
			}
		}
		for _, f := range x.fails {
			fmt.Printf("  FAIL %s: %s\n", f.Sig, f.Detail)
		}
		if len(x.fails) > 0 {
			recordViolation(cfg.Name, x, nil)
		}
		sp.finish(Cfg{MinOutcomes: 1}, start)
		return sp
	}
	enc := func(hist []int) []int {
		out := make([]int, 0, len(hist)+1)
		for _, e := range hist {
			out = append(out, e+1)
		}
		return append(out, 0)
	}
	seen := map[string]struct{}{}
	type node struct{ hist []int }
	run := func(hist []int) (string, bool, *X) {
		x := runOne(enc(hist), body, false)
		sp.Executions++
		if len(x.fails) > 0 {
			recordViolation(cfg.Name, x, body)
		}
		var key string
		ok := false
		if len(x.outcome) == 1 {
			o := x.outcome[0]
			if strings.HasPrefix(o, "true ") {
				ok, key = true, o[5:]
			} else if strings.HasPrefix(o, "false ") {
				key = o[6:]
			}
		}
		return key, ok, x
	}
	k0, _, _ := run(nil)
	seen[k0] = struct{}{}
	frontier := []node{{nil}}
	depth := 0
	for len(frontier) > 0 && depth < cfg.MaxDepth {
		var next []node
		for _, nd := range frontier {
			for ev := 0; ev < cfg.NEvents; ev++ {
				if (cfg.MaxState > 0 && int64(len(seen)) >= cfg.MaxState) || (sp.Executions&0x3f == 0 && time.Now().After(deadline)) {
					sp.Exhaustive, sp.CapHit = false, "max_state_or_deadline"
					goto done
				}
				h := append(append([]int{}, nd.hist...), ev)
				key, ok, _ := run(h)
				if !ok {
					continue
				}
				sp.Transitions++
				if _, dup := seen[key]; dup {
					continue
				}
				seen[key] = struct{}{}
				if len(sp.Samples) < 6 && cfg.EventName != nil {
					var names []string
					for _, e := range h {
						names = append(names, cfg.EventName(e))
					}
					sp.Samples = append(sp.Samples, strings.Join(names, ",")+" -> "+truncate(key, 200))
				}
				next = append(next, node{h})
			}
		}
		frontier = next
		depth++
	}
	if len(frontier) > 0 {
		sp.AddExtra("frontier_at_depth_cap", int64(len(frontier)))
	}
done:
	sp.MaxDepth = depth
	sp.States = int64(len(seen))
	sp.WallS = time.Since(start).Seconds()
	if sp.States < 2 {
		sp.Vacuous = true
	}
	return sp
}

func truncate(s string, n int) string {
	if len(s) > n {
		return s[:n] + "…"
	}
	return s
}

// ---------------------------------------------------------------------------

// Begin names the property for this process's report.
func Begin(property string) {
	mu.Lock()
	report.Property = property
	report.Tier = Tier()
	report.Shard = os.Getenv("VERIF_SHARD")
	mu.Unlock()
}

// Finish writes the report file (VERIF_OUT/report[_shard].json) and fails the
// test when something needs attention; the runner decides exit codes from the
// report, not from the test status.
func Finish(t testing.TB) {
	mu.Lock()
	defer mu.Unlock()
	sort.SliceStable(report.Violations, func(i, j int) bool { return report.Violations[i].Sig < report.Violations[j].Sig })
	b, _ := json.MarshalIndent(report, "", " ")
	name := "report.json"
	if s := os.Getenv("VERIF_SHARD"); s != "" {
		name = "report_" + strings.ReplaceAll(s, "/", "_") + ".json"
	}
	p := filepath.Join(outDir(), name)
	if err := os.WriteFile(p, b, 0o644); err != nil {
		t.Fatalf("venum: cannot write report: %v", err)
	}
	for _, sp := range report.Spaces {
		t.Logf("space %-28s exec=%d trans=%d states=%d depth=%d exhaustive=%v cap=%s vacuous=%v wall=%.1fs",
			sp.Name, sp.Executions, sp.Transitions, sp.States, sp.MaxDepth, sp.Exhaustive, sp.CapHit, sp.Vacuous, sp.WallS)
	}
	for _, v := range report.Violations {
		t.Logf("violation sig=%s count=%d confirmed=%v replay=%s\n    %s", v.Sig, v.Count, v.Confirmed, v.Replay, truncate(v.Detail, 600))
	}
	for _, e := range report.EngineErr {
		t.Logf("ENGINE-ERROR %s", e)
	}
}
