// Package vsched is the controlled cooperative scheduler (engine E3).
//
// The package under test is compiled from sources rewritten so that sync,
// time, `go` statements and channel operations go through this package (see
// /verif/tools/rewrite and /verif/shim). Every logical thread is a real
// goroutine parked on its own wake channel; exactly one runs at a time, so the
// scheduler's own state needs no locking and hand-offs are the only
// happens-before edges. Scheduling decisions are choice points of the venum
// explorer (Preempt when the running thread could have continued, Choose
// otherwise), so schedules x faults x inputs form one tree.
//
// When no scheduler is active (S == nil) every operation degrades to its plain
// single-goroutine meaning, so rewritten code also runs outside Run.
package vsched

import (
	"fmt"
	"reflect"
	"sort"
	"strings"
	"sync"
	"time"

	"github.com/Query-farm/vgi-rpc-go/vgirpc/internal/verif/venum"
)

// Thread is one logical thread.
type Thread struct {
	id      int
	name    string
	wake    chan bool // true = run, false = abort
	enabled func() bool
	desc    string
	obj     any
	wakeAt  time.Time // for sleepers: when they become enabled
	done    bool
	exited  chan struct{}
	started bool
}

// ID returns the thread id (0 is the harness main thread).
func (t *Thread) ID() int { return t.id }

// Done reports whether the thread has finished.
func (t *Thread) Done() bool { return t.done }

type abortSignal struct{}

// IsAbort reports whether a recovered panic value is the scheduler's own
// unwinding signal (harness code that recovers must re-panic or ignore it).
func IsAbort(v any) bool { _, ok := v.(abortSignal); return ok }

// Unsupported is panicked for constructs the scheduler cannot model; the
// explorer reports it as a machinery error, never as a violation.
type Unsupported struct{ What string }

func (u Unsupported) Error() string { return "vsched: unsupported: " + u.What }

// VerifUnsupported marks the panic value for the explorer.
func (u Unsupported) VerifUnsupported() string { return u.What }

// Opts configures one scheduled execution.
type Opts struct {
	MaxSteps    int  // step horizon (default 20000): exceeding it is reported as livelock
	AutoAdvance bool // when no thread is enabled, jump the virtual clock to the next timer/sleeper deadline
	// DelayBounded makes every departure from the deterministic round-robin
	// scheduler cost one unit of the preemption budget, including the choice of
	// who runs when the current thread blocks (delay bounding, Emmi et al. 2011).
	// Without it only preemptions of a runnable thread are bounded and the
	// choice at a blocking point is free (CHESS-style).
	DelayBounded bool
	Start        time.Time
}

// Result is what one scheduled execution observed.
type Result struct {
	Verdict    string // "" (completed) | "deadlock" | "livelock"
	Steps      int
	Contended  int // scheduling points at which more than one thread was enabled
	Blocked    []string
	Trace      []string
	LeakedExit bool
}

// Sched is the state of one execution.
type Sched struct {
	x         *venum.X
	opts      Opts
	threads   []*Thread
	cur       *Thread
	steps     int
	contended int
	aborting  bool
	verdict   string
	blocked   []string
	finished  chan struct{}
	finOnce   sync.Once
	closed    map[uintptr]bool
	timers    []*Timer
	trace     []string
	nextTimer int
	lastRun   int
}

// S is the active scheduler (nil outside Run).
var S *Sched

// Active reports whether a scheduled execution is in progress.
func Active() bool { return S != nil && !S.aborting }

// ---------------------------------------------------------------------------
// Virtual clock (shared with the vtime shim; also usable with no scheduler)

var (
	clockFrozen bool
	clockNow    time.Time
)

// FreezeClock switches vtime to a virtual clock starting at t.
func FreezeClock(t time.Time) { clockFrozen, clockNow = true, t }

// UnfreezeClock returns vtime to the real clock.
func UnfreezeClock() { clockFrozen = false }

// Now returns the virtual time when frozen, else the real time.
func Now() time.Time {
	if clockFrozen {
		return clockNow
	}
	return time.Now()
}

// Elapsed returns the virtual time elapsed since the active scheduler started
// (0 outside a scheduled execution).
func Elapsed() time.Duration {
	if s := S; s != nil {
		return clockNow.Sub(s.opts.Start)
	}
	return 0
}

// ClockFrozen reports whether the virtual clock is in use.
func ClockFrozen() bool { return clockFrozen }

// Advance moves the virtual clock forward and fires due timers. With an active
// scheduler it is also a scheduling point for the caller.
func Advance(d time.Duration) {
	if !clockFrozen {
		panic("vsched.Advance: clock not frozen")
	}
	if s := S; s != nil && !s.aborting {
		s.point(fmt.Sprintf("advance(%v)", d), nil, nil, time.Time{})
		clockNow = clockNow.Add(d)
		s.fireTimers()
		return
	}
	clockNow = clockNow.Add(d)
	fireTimersNoSched()
}

// ---------------------------------------------------------------------------

// Run executes main as thread 0 under the scheduler, taking scheduling
// decisions from x. It returns when main has finished, or on deadlock /
// livelock; remaining threads are then unwound one at a time.
func Run(x *venum.X, opts Opts, main func()) *Result {
	if S != nil {
		panic("vsched.Run: nested scheduler")
	}
	if opts.MaxSteps == 0 {
		opts.MaxSteps = 20000
	}
	if opts.Start.IsZero() {
		opts.Start = time.Unix(1_700_000_000, 0).UTC()
	}
	s := &Sched{x: x, opts: opts, finished: make(chan struct{}), closed: map[uintptr]bool{}}
	S = s
	prevFrozen, prevNow := clockFrozen, clockNow
	FreezeClock(opts.Start)
	pendingTimers = nil
	defer func() {
		S = nil
		clockFrozen, clockNow = prevFrozen, prevNow
		pendingTimers = nil
	}()
	t0 := s.newThread("main", main)
	s.cur = t0
	t0.started = true
	t0.wake <- true
	<-s.finished
	// Unwind every thread that has not finished, one at a time.
	s.aborting = true
	leaked := false
	for _, t := range s.threads {
		if t.done && t.exitedNow() {
			continue
		}
		select {
		case t.wake <- false:
		default:
		}
		select {
		case <-t.exited:
		case <-time.After(5 * time.Second):
			leaked = true
		}
	}
	return &Result{Verdict: s.verdict, Steps: s.steps, Contended: s.contended, Blocked: s.blocked, Trace: s.trace, LeakedExit: leaked}
}

func (t *Thread) exitedNow() bool {
	select {
	case <-t.exited:
		return true
	default:
		return false
	}
}

func (s *Sched) newThread(name string, f func()) *Thread {
	t := &Thread{id: len(s.threads), name: name, wake: make(chan bool, 1), exited: make(chan struct{})}
	s.threads = append(s.threads, t)
	go func() {
		defer close(t.exited)
		ok := <-t.wake
		if !ok {
			t.done = true
			return
		}
		defer func() {
			r := recover()
			if r != nil {
				if _, isAbort := r.(abortSignal); isAbort || s.aborting {
					t.done = true
					return
				}
				// a real panic in a scheduled thread: record and stop the execution
				t.done = true
				s.verdict = "panic"
				s.blocked = append(s.blocked, fmt.Sprintf("thread %d (%s) panicked: %v", t.id, t.name, r))
				s.finish()
				return
			}
			s.exit(t)
		}()
		f()
	}()
	return t
}

func (s *Sched) finish() { s.finOnce.Do(func() { close(s.finished) }) }

// exit is called by a thread's goroutine when its function returned.
func (s *Sched) exit(t *Thread) {
	t.done = true
	if s.aborting {
		return
	}
	if t.id == 0 {
		s.finish()
		return
	}
	next := s.pick(nil)
	if next == nil {
		s.deadlock()
		return
	}
	s.cur = next
	next.started = true
	next.wake <- true
}

func (s *Sched) deadlock() {
	if s.verdict == "" {
		s.verdict = "deadlock"
		for _, t := range s.threads {
			if !t.done {
				s.blocked = append(s.blocked, fmt.Sprintf("thread %d (%s) blocked at %s", t.id, t.name, t.desc))
			}
		}
	}
	s.finish()
}

// pick chooses the next thread to run. cur is the thread at a point (nil when
// the caller is exiting). Returns nil when nothing is enabled.
func (s *Sched) pick(cur *Thread) *Thread {
	for attempt := 0; ; attempt++ {
		var cands []*Thread
		curEnabled := false
		if cur != nil && (cur.enabled == nil || cur.enabled()) {
			cands = append(cands, cur)
			curEnabled = true
		}
		for _, t := range s.threads {
			if t == cur || t.done {
				continue
			}
			if !t.started || t.enabled == nil || t.enabled() {
				cands = append(cands, t)
			}
		}
		if len(cands) == 0 {
			if s.opts.AutoAdvance && s.autoAdvance() {
				continue
			}
			return nil
		}
		if len(cands) == 1 {
			s.lastRun = cands[0].id
			return cands[0]
		}
		s.contended++
		var idx int
		switch {
		case curEnabled:
			idx = s.x.Preempt(len(cands), s.label(cur))
		case s.opts.DelayBounded:
			// round-robin default: the first enabled thread after the last runner
			last := s.lastRun
			sort.SliceStable(cands, func(i, j int) bool {
				di := (cands[i].id - last - 1 + len(s.threads)*2) % (len(s.threads) * 2)
				dj := (cands[j].id - last - 1 + len(s.threads)*2) % (len(s.threads) * 2)
				return di < dj
			})
			idx = s.x.Preempt(len(cands), "sched-delay")
		default:
			idx = s.x.Choose(len(cands), "sched")
		}
		s.lastRun = cands[idx].id
		return cands[idx]
	}
}

func (s *Sched) label(t *Thread) string {
	if t == nil {
		return "sched"
	}
	return fmt.Sprintf("t%d:%s", t.id, t.desc)
}

// autoAdvance jumps the clock to the earliest pending deadline. Returns false
// if there is none.
func (s *Sched) autoAdvance() bool {
	var next time.Time
	consider := func(t time.Time) {
		if t.IsZero() || !t.After(clockNow) {
			return
		}
		if next.IsZero() || t.Before(next) {
			next = t
		}
	}
	for _, t := range s.threads {
		if !t.done {
			consider(t.wakeAt)
		}
	}
	for _, tm := range pendingTimers {
		if tm.active {
			consider(tm.when)
		}
	}
	if next.IsZero() {
		return false
	}
	clockNow = next
	s.trace = append(s.trace, fmt.Sprintf("auto-advance->%v", next.Sub(s.opts.Start)))
	s.fireTimers()
	return true
}

// point is a scheduling point of the current thread: it publishes the pending
// operation and lets the scheduler decide who runs next.
func (s *Sched) point(desc string, obj any, enabled func() bool, wakeAt time.Time) {
	if s.aborting {
		panic(abortSignal{})
	}
	t := s.cur
	s.steps++
	if len(s.trace) < 4000 {
		s.trace = append(s.trace, fmt.Sprintf("t%d %s", t.id, desc))
	}
	t.enabled, t.desc, t.obj, t.wakeAt = enabled, desc, obj, wakeAt
	if s.steps > s.opts.MaxSteps {
		if s.verdict == "" {
			s.verdict = "livelock"
			s.blocked = append(s.blocked, fmt.Sprintf("step horizon %d exceeded at thread %d %s", s.opts.MaxSteps, t.id, desc))
		}
		s.finish()
		if ok := <-t.wake; !ok {
			panic(abortSignal{})
		}
	}
	next := s.pick(t)
	if next == nil {
		s.deadlock()
		if ok := <-t.wake; !ok {
			panic(abortSignal{})
		}
		panic(abortSignal{})
	}
	if next != t {
		s.cur = next
		next.started = true
		next.wake <- true
		if ok := <-t.wake; !ok {
			panic(abortSignal{})
		}
	}
	t.enabled, t.wakeAt = nil, time.Time{}
}

// Point is a plain scheduling point (always enabled) for harness code, e.g.
// inside a handler that should be preemptible in the middle.
func Point(desc string) {
	if s := S; s != nil {
		s.point(desc, nil, nil, time.Time{})
	}
}

// Block waits until cond holds (scheduling point; cond is evaluated by the scheduler).
func Block(desc string, cond func() bool) {
	if s := S; s != nil {
		s.point(desc, nil, cond, time.Time{})
		return
	}
	if !cond() {
		panic("vsched.Block outside scheduler with false condition: " + desc)
	}
}

// Settle waits until no other thread can run (every other thread is finished or blocked). Harness
// code uses it to let background goroutines reach their next wait before it looks at them.
func Settle(desc string) {
	s := S
	if s == nil {
		return
	}
	me := s.cur
	s.point(desc, nil, func() bool {
		for _, t := range s.threads {
			if t == me || t.done {
				continue
			}
			if !t.started || t.enabled == nil || t.enabled() {
				return false
			}
		}
		return true
	}, time.Time{})
}

// BlockUntil is Block with a virtual-time deadline hint for auto-advance.
func BlockUntil(desc string, when time.Time) {
	if s := S; s != nil {
		s.point(desc, nil, func() bool { return !clockNow.Before(when) }, when)
		return
	}
	if clockFrozen {
		if clockNow.Before(when) {
			clockNow = when
			fireTimersNoSched()
		}
		return
	}
	time.Sleep(time.Until(when))
}

// Go starts f as a new logical thread (rewritten `go` statements land here).
func Go(f func()) *Thread {
	s := S
	if s == nil {
		// No scheduler: run as a real goroutine (plain semantics).
		go f()
		return nil
	}
	if s.aborting {
		return nil
	}
	t := s.newThread("go", f)
	s.point(fmt.Sprintf("go t%d", t.id), nil, nil, time.Time{})
	return t
}

// GoNamed is Go with a name for traces.
func GoNamed(name string, f func()) *Thread {
	t := Go(f)
	if t != nil {
		t.name = name
	}
	return t
}

// Join waits for the given threads to finish.
func Join(ts ...*Thread) {
	s := S
	if s == nil {
		return
	}
	s.point("join", nil, func() bool {
		for _, t := range ts {
			if t != nil && !t.done {
				return false
			}
		}
		return true
	}, time.Time{})
}

// Choose exposes a harness-level choice on the execution's choice stack.
func Choose(n int, label string) int {
	if s := S; s != nil {
		return s.x.Choose(n, label)
	}
	return 0
}

// Deviate exposes a harness-level environment answer on the choice stack.
func Deviate(n int, label string) int {
	if s := S; s != nil {
		return s.x.Deviate(n, label)
	}
	return 0
}

// CurrentID returns the running thread's id (-1 outside the scheduler).
func CurrentID() int {
	if s := S; s != nil && s.cur != nil {
		return s.cur.id
	}
	return -1
}

// ---------------------------------------------------------------------------
// Mutex / Once / WaitGroup primitives used by the vsync shim

// MutexState backs vsync.Mutex.
type MutexState struct {
	locked bool
	owner  int
}

func (m *MutexState) Lock() {
	s := S
	if s == nil || s.aborting {
		if s != nil && s.aborting {
			panic(abortSignal{})
		}
		if m.locked {
			panic("vsync.Mutex: Lock of a locked mutex outside the scheduler (self-deadlock)")
		}
		m.locked = true
		return
	}
	s.point("lock", m, func() bool { return !m.locked }, time.Time{})
	m.locked = true
	m.owner = s.cur.id
}

func (m *MutexState) TryLock() bool {
	if s := S; s != nil && !s.aborting {
		s.point("trylock", m, nil, time.Time{})
	}
	if m.locked {
		return false
	}
	m.locked = true
	return true
}

func (m *MutexState) Unlock() {
	if s := S; s != nil && s.aborting {
		m.locked = false
		return
	}
	if !m.locked {
		panic("sync: unlock of unlocked mutex")
	}
	m.locked = false
}

// Locked reports the lock state (for quiescence invariants).
func (m *MutexState) Locked() bool { return m.locked }

// RWMutexState backs vsync.RWMutex.
type RWMutexState struct {
	writer  bool
	readers int
}

func (m *RWMutexState) Lock() {
	s := S
	if s == nil || s.aborting {
		if s != nil {
			panic(abortSignal{})
		}
		if m.writer || m.readers > 0 {
			panic("vsync.RWMutex: self-deadlock outside the scheduler")
		}
		m.writer = true
		return
	}
	s.point("wlock", m, func() bool { return !m.writer && m.readers == 0 }, time.Time{})
	m.writer = true
}
func (m *RWMutexState) Unlock() { m.writer = false }
func (m *RWMutexState) RLock() {
	s := S
	if s == nil || s.aborting {
		if s != nil {
			panic(abortSignal{})
		}
		if m.writer {
			panic("vsync.RWMutex: self-deadlock outside the scheduler")
		}
		m.readers++
		return
	}
	s.point("rlock", m, func() bool { return !m.writer }, time.Time{})
	m.readers++
}
func (m *RWMutexState) RUnlock() {
	if m.readers > 0 {
		m.readers--
	}
}

// OnceState backs vsync.Once.
type OnceState struct {
	done    bool
	running bool
}

func (o *OnceState) Do(f func()) {
	s := S
	if s != nil && !s.aborting {
		s.point("once", o, func() bool { return !o.running }, time.Time{})
	} else if s != nil && s.aborting {
		panic(abortSignal{})
	}
	if o.done {
		return
	}
	o.running = true
	defer func() { o.done, o.running = true, false }()
	f()
}

// WaitGroupState backs vsync.WaitGroup.
type WaitGroupState struct{ n int }

func (w *WaitGroupState) Add(d int) {
	w.n += d
	if w.n < 0 {
		panic("sync: negative WaitGroup counter")
	}
}
func (w *WaitGroupState) Done() { w.Add(-1) }
func (w *WaitGroupState) Wait() {
	s := S
	if s == nil {
		if w.n != 0 {
			panic("vsync.WaitGroup: Wait with non-zero counter outside the scheduler")
		}
		return
	}
	if s.aborting {
		panic(abortSignal{})
	}
	s.point("wg.wait", w, func() bool { return w.n == 0 }, time.Time{})
}

// ---------------------------------------------------------------------------
// Channels. Real Go channels are kept; the scheduler decides readiness from
// len/cap plus its own closed-set and performs the operation while it holds
// the run token (so the operation cannot block).

func chanKey(ch any) uintptr { return reflect.ValueOf(ch).Pointer() }

func (s *Sched) isClosed(ch any) bool { return s.closed[chanKey(ch)] }

// isClosedRecv is isClosed for the receiving side. It also recognises a channel closed by code
// that is not rewritten (the standard library's context cancels ctx.Done() that way): with the
// run token held and the buffer empty, a non-blocking receive that completes can only mean
// "closed", so the probe consumes nothing.
func (s *Sched) isClosedRecv(ch any) bool {
	k := chanKey(ch)
	if s.closed[k] {
		return true
	}
	v := reflect.ValueOf(ch)
	if v.IsNil() || v.Len() > 0 {
		return false
	}
	x, ok := v.TryRecv()
	if x.IsValid() && !ok {
		s.closed[k] = true
		return true
	}
	if ok {
		panic(Unsupported{"a value arrived on a channel from outside the scheduler"})
	}
	return false
}

// Send is `ch <- v`.
func Send[T any](ch chan<- T, v T) {
	s := S
	if s == nil {
		ch <- v
		return
	}
	if s.aborting {
		panic(abortSignal{})
	}
	if ch == nil {
		s.point("send(nil)", nil, func() bool { return false }, time.Time{})
	}
	if cap(ch) == 0 {
		panic(Unsupported{"send on an unbuffered channel"})
	}
	s.point("send", ch, func() bool { return s.isClosed(ch) || len(ch) < cap(ch) }, time.Time{})
	ch <- v // panics if closed, exactly like the real operation
}

// Recv is `<-ch`.
func Recv[T any](ch <-chan T) T {
	v, _ := Recv2(ch)
	return v
}

// Recv2 is `v, ok := <-ch`.
func Recv2[T any](ch <-chan T) (T, bool) {
	s := S
	if s == nil {
		v, ok := <-ch
		return v, ok
	}
	if s.aborting {
		panic(abortSignal{})
	}
	if ch == nil {
		s.point("recv(nil)", nil, func() bool { return false }, time.Time{})
	}
	s.point("recv", ch, func() bool { return len(ch) > 0 || s.isClosedRecv(ch) }, time.Time{})
	v, ok := <-ch
	return v, ok
}

// Close is `close(ch)`.
func Close[T any](ch chan<- T) {
	s := S
	if s == nil {
		close(ch)
		return
	}
	if s.aborting {
		panic(abortSignal{})
	}
	s.point("close", ch, nil, time.Time{})
	close(ch)
	s.closed[chanKey(ch)] = true
}

// Case is one arm of a rewritten select.
type Case interface {
	ready(s *Sched) bool
	fire()
	reflectCase() reflect.SelectCase
	afterReflect(v reflect.Value, ok bool)
}

// RecvOp is a receive arm; V/OK hold the received value after Select.
type RecvOp[T any] struct {
	ch <-chan T
	V  T
	OK bool
}

// RecvCase builds a receive arm.
func RecvCase[T any](ch <-chan T) *RecvOp[T] { return &RecvOp[T]{ch: ch} }

func (r *RecvOp[T]) ready(s *Sched) bool {
	return r.ch != nil && (len(r.ch) > 0 || s.isClosedRecv(r.ch))
}
func (r *RecvOp[T]) fire() { r.V, r.OK = <-r.ch }
func (r *RecvOp[T]) reflectCase() reflect.SelectCase {
	return reflect.SelectCase{Dir: reflect.SelectRecv, Chan: reflect.ValueOf(r.ch)}
}
func (r *RecvOp[T]) afterReflect(v reflect.Value, ok bool) {
	if ok {
		r.V = v.Interface().(T)
	}
	r.OK = ok
}

// SendOp is a send arm.
type SendOp[T any] struct {
	ch chan<- T
	v  T
}

// SendCase builds a send arm.
func SendCase[T any](ch chan<- T, v T) *SendOp[T] { return &SendOp[T]{ch: ch, v: v} }

func (c *SendOp[T]) ready(s *Sched) bool {
	if c.ch == nil {
		return false
	}
	if cap(c.ch) == 0 {
		panic(Unsupported{"select send on an unbuffered channel"})
	}
	return s.isClosed(c.ch) || len(c.ch) < cap(c.ch)
}
func (c *SendOp[T]) fire() { c.ch <- c.v }
func (c *SendOp[T]) reflectCase() reflect.SelectCase {
	return reflect.SelectCase{Dir: reflect.SelectSend, Chan: reflect.ValueOf(c.ch), Send: reflect.ValueOf(c.v)}
}
func (c *SendOp[T]) afterReflect(reflect.Value, bool) {}

// Select runs a rewritten select statement and returns the index of the arm
// that fired, or -1 for the default arm.
func Select(hasDefault bool, cases ...Case) int {
	s := S
	if s == nil {
		rc := make([]reflect.SelectCase, 0, len(cases)+1)
		for _, c := range cases {
			rc = append(rc, c.reflectCase())
		}
		if hasDefault {
			rc = append(rc, reflect.SelectCase{Dir: reflect.SelectDefault})
		}
		i, v, ok := reflect.Select(rc)
		if hasDefault && i == len(cases) {
			return -1
		}
		cases[i].afterReflect(v, ok)
		return i
	}
	if s.aborting {
		panic(abortSignal{})
	}
	anyReady := func() bool {
		for _, c := range cases {
			if c.ready(s) {
				return true
			}
		}
		return false
	}
	s.point("select", nil, func() bool { return hasDefault || anyReady() }, time.Time{})
	var ready []int
	for i, c := range cases {
		if c.ready(s) {
			ready = append(ready, i)
		}
	}
	if len(ready) == 0 {
		return -1
	}
	k := 0
	if len(ready) > 1 {
		k = s.x.Choose(len(ready), "select-arm")
	}
	cases[ready[k]].fire()
	return ready[k]
}

// ---------------------------------------------------------------------------
// Timers (used by the vtime shim)

// Timer is the scheduler's timer/ticker.
type Timer struct {
	id     int
	when   time.Time
	period time.Duration // >0 for tickers
	f      func()        // AfterFunc callback (nil for channel timers)
	C      chan time.Time
	active bool
}

var pendingTimers []*Timer
var timerSeq int

// NewTimer registers a timer. f==nil => deliver on C.
func NewTimer(d time.Duration, period time.Duration, f func()) *Timer {
	timerSeq++
	t := &Timer{id: timerSeq, when: Now().Add(d), period: period, f: f, active: true}
	if f == nil {
		t.C = make(chan time.Time, 1)
	}
	if !clockFrozen {
		panic("vsched.NewTimer with a real clock")
	}
	pendingTimers = append(pendingTimers, t)
	if d <= 0 {
		if s := S; s != nil && !s.aborting {
			s.fireTimers()
		} else {
			fireTimersNoSched()
		}
	}
	return t
}

// Stop deactivates the timer; reports whether it was still pending.
func (t *Timer) Stop() bool {
	was := t.active
	t.active = false
	return was
}

// Reset re-arms the timer.
func (t *Timer) Reset(d time.Duration) bool {
	was := t.active
	t.when = Now().Add(d)
	if !t.active {
		t.active = true
		found := false
		for _, p := range pendingTimers {
			if p == t {
				found = true
			}
		}
		if !found {
			pendingTimers = append(pendingTimers, t)
		}
	}
	return was
}

func dueTimers() []*Timer {
	var due []*Timer
	for _, t := range pendingTimers {
		if t.active && !t.when.After(clockNow) {
			due = append(due, t)
		}
	}
	sort.SliceStable(due, func(i, j int) bool {
		if !due[i].when.Equal(due[j].when) {
			return due[i].when.Before(due[j].when)
		}
		return due[i].id < due[j].id
	})
	return due
}

func compactTimers() {
	out := pendingTimers[:0]
	for _, t := range pendingTimers {
		if t.active {
			out = append(out, t)
		}
	}
	pendingTimers = out
}

func (s *Sched) fireTimers() {
	for _, t := range dueTimers() {
		if t.period > 0 {
			for !t.when.After(clockNow) {
				t.when = t.when.Add(t.period)
			}
			select {
			case t.C <- clockNow:
			default:
			}
			continue
		}
		t.active = false
		if t.f != nil {
			f := t.f
			th := s.newThread("timer", f)
			_ = th
			continue
		}
		select {
		case t.C <- clockNow:
		default:
		}
	}
	compactTimers()
}

func fireTimersNoSched() {
	for _, t := range dueTimers() {
		if t.period > 0 {
			for !t.when.After(clockNow) {
				t.when = t.when.Add(t.period)
			}
			select {
			case t.C <- clockNow:
			default:
			}
			continue
		}
		t.active = false
		if t.f != nil {
			t.f() // no scheduler: run the callback inline
			continue
		}
		select {
		case t.C <- clockNow:
		default:
		}
	}
	compactTimers()
}

// ---------------------------------------------------------------------------

// TraceString renders the operation trace (for replays and determinism checks).
func (r *Result) TraceString() string { return strings.Join(r.Trace, "\n") }
